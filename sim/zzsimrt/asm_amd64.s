#include "textflag.h"

// func rawLoad(p *int64) int64
TEXT ·rawLoad(SB),NOSPLIT,$0-16
	MOVQ p+0(FP), AX
	MOVQ (AX), AX
	MOVQ AX, ret+8(FP)
	RET

// func rawStore(p *int64, v int64)
TEXT ·rawStore(SB),NOSPLIT,$0-16
	MOVQ p+0(FP), AX
	MOVQ v+8(FP), BX
	XCHGQ BX, (AX)
	RET
