// Package zzsimrt is the simulator runtime. ./check copies it into the scratch copy of the
// repository under test (as <module>/zzsimrt); instrumented library code calls Yield,
// YieldSpin, NoYield and MapKeys, the harness calls Start / WaitTurn / Finish.
//
// Tasks are real goroutines running real library code; exactly one holds the turn.
// Everything reachable from Yield is //go:norace and touches only fixed-size arrays,
// an inlined splitmix64 and two amd64 assembly stubs, so ThreadSanitizer sees no
// happens-before edge between tasks: execution is physically serialised (replayable)
// while the race detector still treats the tasks as concurrent (DESIGN.md 3.2).
package zzsimrt

import "runtime"

func rawLoad(p *int64) int64
func rawStore(p *int64, v int64)

const (
	MaxTasks = 8
	MaxSw    = 1 << 19
	MaxSites = 1 << 14
)

// scheduling policies
const (
	PolRandom  = 0 // uniform choice at every yield
	PolSticky  = 1 // switch with probability 1/q
	PolPCT     = 2 // PCT: priorities with d seeded change points
	PolPreempt = 3 // run to completion with k seeded preemptions at shared-memory sites
	PolRR      = 4 // round robin, quantum q
	PolStall   = 5 // one victim is never chosen until all others are done
	PolReplay  = 6 // follow an explicit switch list
	NumSearchPolicies = 6
)

// site kinds (mirrors tools/instrument)
const (
	KFunc = 1 + iota
	KFuncLit
	KLoop
	KPkgVar
	KWrite
	KLockSpin
	KStmt
)

// Abort is the panic value used to unwind a task. Why: 1 injected caller abort,
// 2 step budget exceeded, 3 lock-spin bound exceeded (deadlock).
type Abort struct {
	Task int64
	Why  int64
}

type Switch struct {
	Step int64 `json:"s"`
	Task int64 `json:"t"`
}

type Config struct {
	Tasks     int
	Seed      uint64
	Policy    int
	Args      [4]int64
	StepCap   int64
	AbortTask int64 // 0 = none
	AbortAt   int64 // the AbortAt-th AbortPoint() call of AbortTask panics
	Replay    []Switch
}

var (
	active   int64
	turn     int64
	current  int64
	ntasks   int64
	policy   int64
	pargs    [4]int64
	stepCap  int64
	done     [MaxTasks + 1]int64
	abortAt  [MaxTasks + 1]int64
	apCount  [MaxTasks + 1]int64
	noYield  [MaxTasks + 1]int64
	lastSite [MaxTasks + 1]int64
	quantum  [MaxTasks + 1]int64
	spinRun  [MaxTasks + 1]int64
	lockDepth [MaxTasks + 1]int64 // library locks held by the task (LockAcquired / LockReleasing)
	pendDefer [MaxTasks + 1]int64 // deferred Unlock calls of the task that have not run yet
	// per task, mutex and side (write / read): locks held and deferred Unlocks pending. Plain
	// arrays on purpose: Go maps call the race detector from inside the runtime, which would
	// make the simulator's own bookkeeping look like shared-memory traffic of the library.
	lockBook [MaxTasks + 1][maxLockBook]lockEntry
	writersWaiting [maxLockBook]lockEntry // RWMutex -> tasks waiting in Lock (writer preference); held = count
	prio     [MaxTasks + 1]int64
	lowPrio  int64
	chg      [8]int64 // PCT change points / preemption countdowns
	nchg     int64
	hot      int64 // count of yields at shared-memory sites (PolPreempt)
	rng      uint64
	mapRng   uint64

	rpStep [MaxSw]int64
	rpTask [MaxSw]int64
	rpLen  int64
	rpIdx  int64

	// observable by the harness (read after the run from the main goroutine)
	Steps       int64
	SwStep      [MaxSw]int64
	SwTask      [MaxSw]int64
	SwLen       int64
	SwOverflow  int64
	TraceHash   uint64
	SchedHash   uint64
	OverBudget  int64
	// Tainted: a task had to be stopped for good while it held a lock of the library (it
	// waited for another lock, or did not release within the grace budget). The lock stays
	// taken: the process must not run further cases. Never reset.
	Tainted     int64
	Deadlock    int64
	AbortsFired int64
	SpinTotal   int64
	SiteHit     [MaxSites]int64
	SiteKind    [MaxSites]uint8
	NumSites    int
	SitePos     []string
	Warnings    []string
	PairSeen    [1 << 20]uint8
	PairCount   int64
	HotSwitches int64 // switches taken at pkgvar / write / lockspin sites
	SpinCap     int64 = 100000
)

//go:norace
func next(s *uint64) uint64 {
	*s += 0x9e3779b97f4a7c15
	z := *s
	z = (z ^ (z >> 30)) * 0xbf58476d1ce4e5b9
	z = (z ^ (z >> 27)) * 0x94d049bb133111eb
	return z ^ (z >> 31)
}

//go:norace
func live(except int64) int64 {
	var c int64
	for i := int64(1); i <= ntasks; i++ {
		if done[i] == 0 && i != except {
			c++
		}
	}
	return c
}

// randomLive picks uniformly among unfinished tasks other than except (0 = none excluded).
//
//go:norace
func randomLive(except int64) int64 {
	c := live(except)
	if c == 0 {
		return 0
	}
	k := int64(next(&rng) % uint64(c))
	for i := int64(1); i <= ntasks; i++ {
		if done[i] == 0 && i != except {
			if k == 0 {
				return i
			}
			k--
		}
	}
	return 0
}

//go:norace
func cyclicLive(after int64) int64 {
	for d := int64(1); d <= ntasks; d++ {
		i := (after-1+d)%ntasks + 1
		if done[i] == 0 {
			return i
		}
	}
	return 0
}

//go:norace
func topPrio(except int64) int64 {
	var best int64
	for i := int64(1); i <= ntasks; i++ {
		if done[i] == 0 && i != except && (best == 0 || prio[i] > prio[best]) {
			best = i
		}
	}
	return best
}

// choose returns the task that runs next. me is the caller (0 when it has finished),
// forced means the caller cannot make progress (lock spin) or is gone.
//
//go:norace
func choose(me int64, site int, forced bool) int64 {
	ex := int64(0)
	if forced {
		ex = me
	}
	if forced && live(me) == 0 {
		return me
	}
	switch policy {
	case PolReplay:
		for rpIdx < rpLen && rpStep[rpIdx] < Steps {
			rpIdx++
		}
		if rpIdx < rpLen && rpStep[rpIdx] == Steps {
			n := rpTask[rpIdx]
			rpIdx++
			if n >= 1 && n <= ntasks && done[n] == 0 && !(forced && n == me) {
				return n
			}
		}
		if forced {
			return cyclicLive(me)
		}
		return me
	case PolSticky:
		if !forced && next(&rng)%uint64(pargs[0]) != 0 {
			return me
		}
		return randomLive(ex)
	case PolPCT:
		for j := int64(0); j < nchg; j++ {
			if chg[j] == Steps && me != 0 {
				lowPrio--
				prio[me] = lowPrio
			}
		}
		if forced && me != 0 {
			lowPrio--
			prio[me] = lowPrio
		}
		return topPrio(ex)
	case PolPreempt:
		if forced {
			return randomLive(ex)
		}
		k := SiteKind[site]
		if k == KPkgVar || k == KWrite || k == KLockSpin {
			hot++
			for j := int64(0); j < nchg; j++ {
				if chg[j] == hot {
					return randomLive(me)
				}
			}
		}
		return me
	case PolRR:
		if forced {
			return cyclicLive(me)
		}
		quantum[me]++
		if quantum[me] >= pargs[0] {
			quantum[me] = 0
			return cyclicLive(me)
		}
		return me
	case PolStall:
		v := pargs[0]
		if !forced && me != 0 && me != v && next(&rng)%4 != 0 {
			return me
		}
		// any live non-victim (other than the excluded one)?
		var c int64
		for i := int64(1); i <= ntasks; i++ {
			if done[i] == 0 && i != ex && i != v {
				c++
			}
		}
		if c == 0 {
			if forced || me == 0 {
				return randomLive(ex)
			}
			if me != v {
				return me
			}
			return randomLive(0)
		}
		k := int64(next(&rng) % uint64(c))
		for i := int64(1); i <= ntasks; i++ {
			if done[i] == 0 && i != ex && i != v {
				if k == 0 {
					return i
				}
				k--
			}
		}
		return me
	default:
		return randomLive(ex)
	}
}

//go:norace
func record(n int64) {
	if SwLen < MaxSw {
		SwStep[SwLen] = Steps
		SwTask[SwLen] = n
		SwLen++
	} else {
		SwOverflow++
	}
}

//go:norace
func handoff(me, n int64, site int) {
	record(n)
	SchedHash = (SchedHash ^ (uint64(me)<<40 | uint64(site)<<16 | uint64(n))) * 1099511628211
	idx := (uint64(site)*40503 ^ uint64(lastSite[n])*2654435761 ^ uint64(lastSite[n])>>3) & (1<<20 - 1)
	if PairSeen[idx] == 0 {
		PairSeen[idx] = 1
		PairCount++
	}
	k := SiteKind[site]
	if k == KPkgVar || k == KWrite || k == KLockSpin {
		HotSwitches++
	}
	current = n
	rawStore(&turn, n)
	for rawLoad(&turn) != me {
		runtime.Gosched()
	}
	if OverBudget != 0 {
		if !stoppable(me) {
			return // runs on until a panic can unwind it cleanly (see yield)
		}
		panic(Abort{me, 2})
	}
	if Deadlock != 0 {
		stop(me, 3)
	}
}

const maxLockBook = 24

type lockEntry struct {
	mu         interface{}
	read       int
	held, pend int
}

// book returns the entry of (mu, read) in the task's book, creating it if asked to.
//
//go:norace
func book(me int64, mu interface{}, read int, create bool) *lockEntry {
	var free *lockEntry
	for i := range lockBook[me] {
		e := &lockBook[me][i]
		if e.mu == mu && e.read == read {
			return e
		}
		if e.mu == nil && free == nil {
			free = e
		}
	}
	if create && free != nil {
		free.mu, free.read, free.held, free.pend = mu, read, 0, 0
		return free
	}
	return nil
}

// graceSteps: how far beyond the step budget a task may run on to release a lock it holds.
const graceSteps = 200000

// AbandonHook is set by the harness: a task that cannot be stopped by a panic (its deferred
// Unlock would hit a mutex it does not hold at this point) is parked for good instead; the
// hook tells the harness that the task will never return.
var AbandonHook func(id int64, why int64)

// stoppable: every lock the task holds is covered by a deferred Unlock and every pending
// deferred Unlock has its lock taken - a panic unwinds to a consistent state.
//
//go:norace
func stoppable(me int64) bool {
	if lockDepth[me] != pendDefer[me] {
		return false
	}
	for i := range lockBook[me] {
		if e := &lockBook[me][i]; e.mu != nil && e.held != e.pend {
			return false
		}
	}
	return true
}

// stop ends the task for good: by a panic where that is safe, by parking it otherwise.
//
//go:norace
func stop(me int64, why int64) {
	if stoppable(me) {
		panic(Abort{me, why})
	}
	Tainted = 1
	misfire := false // some deferred Unlock would hit a mutex side the task does not hold
	for i := range lockBook[me] {
		if e := &lockBook[me][i]; e.mu != nil && e.held < e.pend {
			misfire = true
		}
	}
	if !misfire || AbandonHook == nil {
		panic(Abort{me, why}) // a lock stays taken; no deferred Unlock can misfire
	}
	// fewer locks held than deferred Unlocks pending: unwinding would unlock a free mutex
	// (a fatal runtime error). Park the goroutine for good.
	Finish(me)
	AbandonHook(me, why)
	select {}
}

//go:norace
func yield(site int, forced bool) {
	if rawLoad(&active) == 0 {
		return
	}
	me := current
	if me == 0 || noYield[me] > 0 {
		return
	}
	Steps++
	if site > 0 && site < MaxSites {
		SiteHit[site]++
	}
	lastSite[me] = int64(site)
	TraceHash = (TraceHash ^ (uint64(me)<<32 | uint64(site))) * 1099511628211
	if Steps > stepCap || OverBudget != 0 {
		OverBudget = 1
		// a task is never stopped for good while it holds a lock of the library (the lock
		// would stay taken for the rest of the process): it runs on, alone, until it has
		// released it - unless it is itself waiting for a lock (forced) or does not get
		// there within a grace budget, in which case the process is marked tainted
		if !stoppable(me) && !forced && Steps <= stepCap+graceSteps {
			return
		}
		stop(me, 2)
	}
	if forced {
		SpinTotal++
		spinRun[me]++
		if spinRun[me] > SpinCap {
			Deadlock = 1
			stop(me, 3)
		}
	} else {
		spinRun[me] = 0
	}
	n := choose(me, site, forced)
	if n == me || n == 0 {
		return
	}
	handoff(me, n, site)
}

// LockAcquired / LockReleasing bracket the critical sections of the library's own locks
// (inserted by the instrumenter after a TryLock loop and before every Unlock).
//
//go:norace
func LockAcquired(mu interface{}, read int) {
	if rawLoad(&active) != 0 && current != 0 {
		lockDepth[current]++
		if e := book(current, mu, read, true); e != nil {
			e.held++
		}
	}
}

//go:norace
func LockReleasing(mu interface{}, read int) {
	if rawLoad(&active) != 0 && current != 0 && lockDepth[current] > 0 {
		lockDepth[current]--
		if e := book(current, mu, read, false); e != nil && e.held > 0 {
			e.held--
			if e.held == 0 && e.pend == 0 {
				e.mu = nil
			}
		}
	}
}

// DeferredUnlock counts the task's registered, not yet executed deferred Unlock calls.
//
//go:norace
func DeferredUnlock(mu interface{}, read int, d int) {
	if rawLoad(&active) != 0 && current != 0 {
		pendDefer[current] += int64(d)
		if pendDefer[current] < 0 {
			pendDefer[current] = 0
		}
		if e := book(current, mu, read, d > 0); e != nil {
			e.pend += d
			if e.pend < 0 {
				e.pend = 0
			}
			if e.held == 0 && e.pend == 0 {
				e.mu = nil
			}
		}
	}
}

// WriterWaiting / WriterIsWaiting model the writer preference of sync.RWMutex: while a task
// waits in Lock, RLock does not succeed.
//
//go:norace
func WriterWaiting(mu interface{}, d int) {
	if rawLoad(&active) == 0 {
		return
	}
	var free *lockEntry
	for i := range writersWaiting {
		e := &writersWaiting[i]
		if e.mu == mu {
			e.held += d
			if e.held <= 0 {
				e.mu, e.held = nil, 0
			}
			return
		}
		if e.mu == nil && free == nil {
			free = e
		}
	}
	if d > 0 && free != nil {
		free.mu, free.held = mu, d
	}
}

//go:norace
func WriterIsWaiting(mu interface{}) bool {
	if rawLoad(&active) == 0 {
		return false
	}
	for i := range writersWaiting {
		if e := &writersWaiting[i]; e.mu == mu && e.held > 0 {
			return true
		}
	}
	return false
}

// Yield is a scheduling point inserted by the instrumenter.
//
//go:norace
func Yield(site int) { yield(site, false) }

// YieldSpin is the body of a TryLock loop: the caller cannot progress, so another
// task must be chosen if one exists.
//
//go:norace
func YieldSpin(site int) { yield(site, true) }

// NoYield(+1) / NoYield(-1) bracket regions that must not be interleaved (sync.Once.Do).
//
//go:norace
func NoYield(d int) {
	if rawLoad(&active) == 0 {
		return
	}
	if me := current; me != 0 {
		noYield[me] += int64(d)
	}
}

// AbortPoint is called by harness-owned callbacks (interpreters, leaf parsers): the
// only places where a Go caller can really be aborted, by a panic in user code.
//
//go:norace
func AbortPoint() {
	if rawLoad(&active) == 0 {
		return
	}
	me := current
	if me == 0 {
		return
	}
	apCount[me]++
	if abortAt[me] != 0 && apCount[me] == abortAt[me] {
		AbortsFired++
		panic(Abort{me, 1})
	}
}

// Current returns the id of the running task (0 outside a simulation).
//
//go:norace
func Current() int64 {
	if rawLoad(&active) == 0 {
		return 0
	}
	return current
}

// Finish marks the calling task done and hands the turn on.
//
//go:norace
func Finish(me int64) {
	done[me] = 1
	Steps++
	TraceHash = (TraceHash ^ (uint64(me)<<32 | 0xffff)) * 1099511628211
	if live(0) == 0 {
		current = 0
		rawStore(&active, 0)
		rawStore(&turn, 0)
		return
	}
	var n int64
	switch policy {
	case PolReplay:
		n = choose(0, 0, false)
		if n == 0 || done[n] != 0 {
			n = cyclicLive(0)
		}
	case PolPCT:
		n = topPrio(0)
	case PolRR:
		n = cyclicLive(me)
	case PolStall:
		n = choose(0, 0, false)
		if n == 0 {
			n = cyclicLive(0)
		}
	default:
		n = randomLive(0)
	}
	record(n)
	SchedHash = (SchedHash ^ (uint64(me)<<40 | 0xffff<<16 | uint64(n))) * 1099511628211
	current = n
	rawStore(&turn, n)
}

// WaitTurn parks a freshly spawned task until it is first scheduled.
//
//go:norace
func WaitTurn(me int64) {
	for rawLoad(&turn) != me {
		runtime.Gosched()
	}
	if OverBudget != 0 {
		panic(Abort{me, 2})
	}
	if Deadlock != 0 {
		panic(Abort{me, 3})
	}
}

// Start is called by the main goroutine after spawning the task goroutines (which call
// WaitTurn first). It returns when every task has called Finish.
//
//go:norace
func Start(c *Config) {
	ntasks = int64(c.Tasks)
	rng = c.Seed
	policy = int64(c.Policy)
	pargs = c.Args
	stepCap = c.StepCap
	if stepCap <= 0 {
		stepCap = 1 << 40
	}
	Steps, SwLen, SwOverflow, OverBudget, Deadlock = 0, 0, 0, 0, 0
	writersWaiting = [maxLockBook]lockEntry{}
	TraceHash, SchedHash = 14695981039346656037, 14695981039346656037
	hot, nchg, lowPrio = 0, 0, 0
	for i := range done {
		done[i], abortAt[i], apCount[i], noYield[i], lastSite[i], quantum[i], spinRun[i] = 0, 0, 0, 0, 0, 0, 0
		lockDepth[i], pendDefer[i] = 0, 0
		lockBook[i] = [maxLockBook]lockEntry{}
		prio[i] = 0
	}
	if c.AbortTask >= 1 && c.AbortTask <= MaxTasks {
		abortAt[c.AbortTask] = c.AbortAt
	}
	switch policy {
	case PolSticky, PolRR:
		if pargs[0] < 1 {
			pargs[0] = 1
		}
	case PolPCT:
		// distinct random priorities n..1 (a permutation), change points in [1, est]
		for i := int64(1); i <= ntasks; i++ {
			prio[i] = i
		}
		for i := ntasks; i > 1; i-- {
			j := int64(next(&rng)%uint64(i)) + 1
			prio[i], prio[j] = prio[j], prio[i]
		}
		nchg = pargs[0]
		if nchg > 8 {
			nchg = 8
		}
		est := pargs[1]
		if est < 1 {
			est = 1
		}
		for j := int64(0); j < nchg; j++ {
			chg[j] = int64(next(&rng)%uint64(est)) + 1
		}
	case PolPreempt:
		nchg = pargs[0]
		if nchg > 8 {
			nchg = 8
		}
		est := pargs[1]
		if est < 1 {
			est = 1
		}
		for j := int64(0); j < nchg; j++ {
			chg[j] = int64(next(&rng)%uint64(est)) + 1
		}
	case PolReplay:
		rpLen, rpIdx = 0, 0
		for _, s := range c.Replay {
			if rpLen < MaxSw {
				rpStep[rpLen], rpTask[rpLen] = s.Step, s.Task
				rpLen++
			}
		}
	}
	var first int64
	switch policy {
	case PolReplay:
		first = choose(0, 0, false)
		if first == 0 {
			first = 1
		}
	case PolPCT:
		first = topPrio(0)
	case PolRR:
		first = 1
	case PolStall:
		first = choose(0, 0, false)
	default:
		first = randomLive(0)
	}
	if first < 1 || first > ntasks {
		first = 1
	}
	record(first)
	current = first
	rawStore(&active, 1)
	rawStore(&turn, first)
	for rawLoad(&turn) != 0 {
		runtime.Gosched()
	}
}

// Schedule returns a copy of the switch list of the last run.
func Schedule() []Switch {
	out := make([]Switch, SwLen)
	for i := range out {
		out[i] = Switch{SwStep[i], SwTask[i]}
	}
	return out
}
