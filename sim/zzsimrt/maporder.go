package zzsimrt

import (
	"fmt"
	"reflect"
	"sort"
)

var (
	// MapRanges counts map iterations routed through the seam; MapPermuted those whose
	// order differed from the canonical one (fault kind "map-order perturbation").
	MapRanges, MapPermuted, MapUncontrolled int64
	mapIdentity                             int64 // 1 = canonical order, no permutation
)

// SetMapSeed starts a new map-order stream. identity=true keeps canonical (sorted) order.
//
//go:norace
func SetMapSeed(s uint64, identity bool) {
	mapRng = s
	if identity {
		mapIdentity = 1
	} else {
		mapIdentity = 0
	}
}

//go:norace
func mapStats(n int, permuted bool, uncontrolled bool) {
	MapRanges++
	if permuted {
		MapPermuted++
	}
	if uncontrolled {
		MapUncontrolled++
	}
}

//go:norace
func permute(n int) []int {
	p := make([]int, n)
	for i := range p {
		p[i] = i
	}
	if mapIdentity != 0 {
		return p
	}
	for i := n - 1; i > 0; i-- {
		j := int(next(&mapRng) % uint64(i+1))
		p[i], p[j] = p[j], p[i]
	}
	return p
}

// MapKeys returns the keys of map m as a []K: canonical (sorted) order, permuted by the
// run's map-order stream. Every `range` over a map in instrumented code goes through it,
// so Go's randomised iteration order is replaced by one the simulator decides.
func MapKeys(m interface{}) interface{} {
	v := reflect.ValueOf(m)
	keys := v.MapKeys()
	uncontrolled := false
	sort.Slice(keys, func(i, j int) bool {
		a, b := keys[i], keys[j]
		switch a.Kind() {
		case reflect.Int, reflect.Int8, reflect.Int16, reflect.Int32, reflect.Int64:
			return a.Int() < b.Int()
		case reflect.Uint, reflect.Uint8, reflect.Uint16, reflect.Uint32, reflect.Uint64, reflect.Uintptr:
			return a.Uint() < b.Uint()
		case reflect.String:
			return a.String() < b.String()
		case reflect.Float32, reflect.Float64:
			return a.Float() < b.Float()
		case reflect.Bool:
			return !a.Bool() && b.Bool()
		}
		// pointers, interfaces, structs: no canonical order exists; fall back to the
		// printed form and count the iteration as not controlled.
		uncontrolled = true
		return fmt.Sprint(a.Interface()) < fmt.Sprint(b.Interface())
	})
	out := reflect.MakeSlice(reflect.SliceOf(v.Type().Key()), len(keys), len(keys))
	perm := permute(len(keys))
	permuted := false
	for i, k := range keys {
		if perm[i] != i {
			permuted = true
		}
		out.Index(perm[i]).Set(k)
	}
	mapStats(len(keys), permuted, uncontrolled)
	return out.Interface()
}

// Root is one package-level variable of the library under test.
type Root struct {
	Pkg, Name string
	Addr      interface{} // pointer to the variable
}

var roots []Root

// RegisterRoots is called from the generated zz_sim_roots.go of every package.
func RegisterRoots(pkg string, vars map[string]interface{}) {
	names := make([]string, 0, len(vars))
	for n := range vars {
		names = append(names, n)
	}
	sort.Strings(names)
	for _, n := range names {
		roots = append(roots, Root{pkg, n, vars[n]})
	}
	sort.SliceStable(roots, func(i, j int) bool {
		if roots[i].Pkg != roots[j].Pkg {
			return roots[i].Pkg < roots[j].Pkg
		}
		return roots[i].Name < roots[j].Name
	})
}

// Roots lists every package-level variable of the instrumented library.
func Roots() []Root { return roots }
