package main

import (
	"runtime/debug"
	"runtime"
	"encoding/json"
	"fmt"
	"os"
	"path/filepath"
	"reflect"
	"strings"

	"github.com/opsidian/parsley/ast"
	"github.com/opsidian/parsley/combinator"
	"github.com/opsidian/parsley/data"
	"github.com/opsidian/parsley/parser"
	"github.com/opsidian/parsley/parsley"
	"github.com/opsidian/parsley/text"
	"github.com/opsidian/parsley/text/terminal"
	sim "github.com/opsidian/parsley/zzsimrt"
)

// C14 - a parser graph can be shared by concurrent parses.
//
// N parse/evaluate tasks (own File, FileSet, Reader, Context, input) run over 1-2 shared
// graphs, plus constructor tasks that build further graphs concurrently and parse with
// them. Oracles: (1) solo differential - each task's observation equals that of the same
// input parsed alone on a freshly constructed twin graph AFTER the concurrent phase, and
// alone on the very same shared graph afterwards; (2) with the -race build, the race
// detector under the invisible handoff (schedule-independent); (3) the shared empty
// values / error sentinels among the package-level roots are unchanged; (4) every task
// finishes (no lock-spin deadlock); (5) after an injected caller abort the survivors are
// unaffected.

type c14Task struct {
	Construct   bool       `json:"construct,omitempty"` // build Own concurrently, then parse with it
	Graph       int        `json:"graph"`
	Own         *GraphSpec `json:"own,omitempty"`
	Input       string     `json:"input"`
	Eval        bool       `json:"eval,omitempty"`
	Prefix      []string   `json:"prefix,omitempty"` // files added to the file set first
	Huge        int        `json:"huge,omitempty"`   // length of a content-less file added first (large global positions)
	Frags       []string   `json:"frags,omitempty"`  // literals for which this task constructs Memoize(Op(lit)) fragments first (cooperative construction)
	FromFile    bool       `json:"from_file,omitempty"` // the input is loaded with text.ReadFile (the library's only I/O) from a file the harness wrote; equal inputs share one path
	path        string
	soloCtx     func() *parsley.Context // same placement as in the concurrent phase, fresh objects
	common      []parsley.File          // caller-owned prelude slice spread into NewFileSet by the run itself
	fname       string
	StaticCheck bool       `json:"static_check,omitempty"`
	Transform   bool       `json:"transform,omitempty"` // ctx.EnableTransformation()
	Twice       bool       `json:"twice,omitempty"`     // the run uses its context twice: a Parse (syntax check) and then the Parse / Evaluate proper
	// Derive: the run first constructs its own parser AROUND the shared graph (a derived
	// grammar built per request: Single / Optional / Memoize / SuppressError / SeqOf of the
	// shared root) and parses with that; constructors must not touch their operands
	Derive string `json:"derive,omitempty"`
}

type c14Case struct {
	// Warm: inputs parsed one after the other on the shared graphs BEFORE the concurrent
	// phase (a long-lived, warmed-up grammar; most runs keep the graphs cold so that first
	// use happens concurrently)
	Warm        []c14Task   `json:"warm,omitempty"`
	// ShareFiles: the caller loads each distinct input once and hands the SAME *text.File to
	// every run that parses it (own file set, reader and context per run, all prepared - and
	// the file's line table built - before the runs start)
	ShareFiles bool `json:"share_files,omitempty"`
	// ShareFileSet: one parsley.FileSet holds the (own) input files of all runs - global
	// positions are unique across a project's files - and is filled before the runs start;
	// every run has its own context and reader
	ShareFileSet bool `json:"share_file_set,omitempty"`
	// Common: every run builds its OWN file set as NewFileSet(common...) + AddFile(own file)
	// from one caller-owned slice of prelude files ("the project's preludes") of length
	// Common[0] and capacity Common[1]. With no preludes the file sets are built by the runs
	// themselves, concurrently; with preludes (shared File objects, whose offset AddFile
	// writes) the caller builds them one after the other before the runs start.
	Common []int `json:"common,omitempty"`
	Graphs      []GraphSpec `json:"graphs"`
	Tasks       []c14Task   `json:"tasks"`
	MapSeed     uint64      `json:"map_seed"`
	MapIdentity bool        `json:"map_identity"`
	Sched       *SchedSpec  `json:"sched"`
}

type c14Prop struct{}

func init() { props["C14"] = &c14Prop{} }

func (*c14Prop) Level() string { return "exploration" }
func (*c14Prop) Rule() string {
	return "case = 1-2 shared parser graphs (JSON example, left-recursive arithmetic with interpreters, P->Pb|a, indirect pair, all literal terminals behind named alternatives and trim modes, seeded left-recursion-free grammars) x 2-4 tasks (parse or evaluate, matching or failing input, own file set; constructor tasks build graphs concurrently) x one seeded schedule (random / sticky / PCT / k-preemption / round-robin / stall) x optional caller abort inside a harness interpreter; non-trivial = at least 2 tasks each executed >= 20 yields and the schedule contains >= 2 context switches; distinct = different hash of (graphs, tasks, inputs, schedule fingerprint)"
}
func (*c14Prop) Assumptions() []string {
	return []string{
		"physical serialisation with an assembly handoff: ThreadSanitizer treats tasks as unordered, so any conflicting pair of accesses executed by two tasks is reported whatever the schedule; needs both tasks to execute the path and TSan to keep the older access in its shadow cells",
		"amd64 total store order (the handoff is deliberately not a Go-visible synchronisation)",
		"a solo parse on a freshly constructed twin graph is a sound baseline (twin builds differ only in parser indexes)",
		"caller aborts are injected only inside harness-owned interpreters: in Go a caller can only be aborted by a panic in user code",
		"yield points exist only where the instrumenter puts them (function entry, loop bodies, statements touching package-level variables or writing through index/field/pointer/append/copy/delete); interleavings inside a single such statement are not explored by the differential oracle (the race oracle does not need them)",
	}
}
func (*c14Prop) Components() map[string]interface{} {
	return map[string]interface{}{
		"real":          []string{"parsley", "combinator", "parser", "ast", "ast/interpreter", "data", "text", "text/terminal", "examples/json/json (instrumented copy of /repo's working tree)", "Go runtime, regexp, fmt, strconv (uninstrumented, real)"},
		"stub":          []string{},
		"harness_owned": []string{"task scheduler", "interpreters of the arithmetic / seeded grammars (abort points)", "input generators"},
	}
}

func (*c14Prop) Plans(tier string) []Plan {
	if tier == "quick" {
		return []Plan{
			{Name: "plain", Workers: 16, Runs: 2500, MaxTime: 20e9},
			{Name: "race", Race: true, Workers: 16, Runs: 1500, MaxTime: 28e9},
			{Name: "race-cold", Race: true, Workers: 96, Runs: 1, MaxTime: 30e9, Cold: true},
			{Name: "deep", Variant: 1, Workers: 8, Runs: 6, MaxTime: 25e9},
		}
	}
	return []Plan{
		{Name: "plain", Workers: 16, Runs: 4000000, MaxTime: 480e9},
		{Name: "race", Race: true, Workers: 16, Runs: 4000000, MaxTime: 600e9},
		{Name: "race-cold", Race: true, Workers: 1024, Runs: 1, MaxTime: 60e9, Cold: true},
		{Name: "plain-cold", Workers: 1024, Runs: 1, MaxTime: 60e9, Cold: true},
		{Name: "deep", Variant: 1, Workers: 16, Runs: 100000, MaxTime: 300e9},
		{Name: "deep-race", Variant: 1, Race: true, Workers: 16, Runs: 100000, MaxTime: 300e9},
	}
}

var c14Kinds = []string{"json", "json", "arith", "arith", "pb", "pair", "mutual", "tokens", "tokens", "grammar", "grammar"}

func genGraphSpec(r *Rand) GraphSpec {
	if r.Chance(1, 40) {
		return GraphSpec{Kind: "manyopt"}
	}
	s := GraphSpec{Kind: c14Kinds[r.Intn(len(c14Kinds))], Churn: r.Intn(3)}
	if r.Chance(1, 10) {
		s.Churn = r.Range(40, 600)
	}
	if s.Kind == "grammar" {
		s.G = genGrammar(r, &genOpts{MaxNodes: 12, Alphabet: "ab", Trims: true, MemoChance: 35, Names: true, Rich: r.Chance(1, 3), User: true, Prebuilt: true})
		s.Interp = r.Bool()
		if !hasRich(s.G) && r.Chance(1, 6) {
			s.G.translit('b', []string{"é", "世"}[r.Intn(2)]) // non-ASCII alphabet
		}
		n := len(s.G.Nodes)
		s.Order = make([]int, n)
		for i := range s.Order {
			s.Order[i] = i
		}
		for i := n - 1; i > 0; i-- {
			j := r.Intn(i + 1)
			s.Order[i], s.Order[j] = s.Order[j], s.Order[i]
		}
	}
	return s
}

// genDeep: 3-6 tasks recurse several hundred levels deep into ONE shared left-recursive
// graph at the same time (resource limits, depth counters and the like are
// size-dependent: a knob never large enough for the rare path to run is a blind spot).
func genDeep(r *Rand) *c14Case {
	c := &c14Case{MapSeed: r.U64(), MapIdentity: true}
	nt := r.Range(3, 6)
	kind := []string{"pb", "pb", "pb", "pair", "pair", "arith"}[r.Intn(6)]
	c.Graphs = []GraphSpec{{Kind: kind, Churn: r.Intn(3)}}
	for i := 0; i < nt; i++ {
		t := c14Task{Graph: 0, Eval: r.Bool()}
		switch kind {
		case "pb":
			t.Input = "a" + strings.Repeat("b", r.Range(180, 420))
		case "pair":
			n := r.Range(180, 400)
			var sb strings.Builder
			for j := 0; j < n; j++ {
				sb.WriteByte("ab"[j%2])
			}
			t.Input = sb.String()
		default:
			k := r.Range(20, 90)
			t.Input = strings.Repeat("(", k) + fmt.Sprint(r.Intn(10)) + strings.Repeat(")", k)
			t.Eval = true
		}
		if r.Chance(1, 6) {
			t.Input = mutate(r, t.Input, "abx()1")
		}
		c.Tasks = append(c.Tasks, t)
	}
	c.Sched = genSched(r, nt, 2000000)
	switch c.Sched.Policy {
	case sim.PolRandom: // a switch at every yield would make the schedule too long to record
		c.Sched.Policy = sim.PolSticky
		c.Sched.Args[0] = 256
	case sim.PolSticky:
		c.Sched.Args[0] = int64([]int{64, 512, 4096}[r.Intn(3)])
	case sim.PolRR:
		c.Sched.Args[0] = int64([]int{100, 1000, 20000}[r.Intn(3)])
	}
	c.Sched.StepCap = 400000000
	if r.Chance(1, 3) {
		c.Sched.AbortTask = int64(r.Range(1, nt))
		c.Sched.AbortAt = int64(r.Range(1, 400))
	}
	return c
}

func (*c14Prop) Gen(r *Rand, pl *Plan) Case {
	if pl.Variant == 1 {
		return genDeep(r)
	}
	c := &c14Case{MapSeed: r.U64(), MapIdentity: r.Chance(1, 8)}
	ng := r.Range(1, 2)
	for i := 0; i < ng; i++ {
		c.Graphs = append(c.Graphs, genGraphSpec(r))
	}
	nt := r.Range(2, 4)
	if r.Chance(1, 8) {
		nt = r.Range(5, 7) // more callers than a typical test would start
	}
	useFiles := r.Chance(1, 10) // all inputs of this case go through text.ReadFile
	c.ShareFiles = !useFiles && r.Chance(1, 10)
	c.ShareFileSet = !useFiles && !c.ShareFiles && r.Chance(1, 10) // (prefix / huge placements of the tasks are ignored in this mode)
	if !c.ShareFiles && !c.ShareFileSet && r.Chance(1, 10) {
		l := r.Intn(3)
		c.Common = []int{l, l + r.Intn(6)} // (prefix / huge placements are ignored in this mode too)
	}
	// (in the cold plans every case runs in a process of its own: whatever "the first / the
	// largest so far in this process" triggers, triggers there - so a third of them are long)
	longCase := r.Chance(1, 40) || pl.Cold && r.Chance(1, 3)
	if longCase && r.Chance(2, 3) {
		c.Graphs[0] = GraphSpec{Kind: "arith", Churn: r.Intn(3)} // the memoised, left-recursive expression grammar
	}
	caseHuge := 0
	if r.Chance(1, 8) {
		caseHuge = hugeSizes[r.Intn(len(hugeSizes))]
	}
	for i := 0; i < nt; i++ {
		t := c14Task{Graph: r.Intn(ng), Eval: r.Chance(2, 3), StaticCheck: r.Chance(1, 6), Transform: r.Chance(1, 6), Twice: r.Chance(1, 6)}
		spec := &c.Graphs[t.Graph]
		if r.Chance(1, 6) {
			own := genGraphSpec(r)
			t.Construct, t.Own = true, &own
			spec = t.Own
		}
		t.Input = spec.genInput(r)
		if i > 0 && (r.Chance(1, 4) || c.ShareFiles && r.Chance(1, 2)) {
			t.Input = c.Tasks[r.Intn(i)].Input // identical inputs on purpose
			if c.Tasks[0].Graph != t.Graph || c.Tasks[0].Construct || t.Construct {
				t.Input = spec.genInput(r)
			}
		}
		if longCase && r.Chance(2, 3) {
			if l := spec.genLong(r); l != "" {
				t.Input = l // inputs longer than anything the process has parsed before
			}
		}
		if spec.Kind == "grammar" && !spec.Interp {
			t.Eval = false
		}
		if r.Chance(1, 12) {
			t.Huge = hugeSizes[r.Intn(len(hugeSizes))]
		}
		if !t.Construct && r.Chance(1, 10) {
			t.Derive = []string{"single", "single", "opt", "memo", "suppress", "seq", "rtrim", "sentence", "sentence"}[r.Intn(9)]
		}
		if caseHuge > 0 && r.Chance(3, 4) {
			t.Huge = caseHuge // the same placement for (most of) the runs: equal inputs get equal global positions
		}
		t.FromFile = useFiles
		for k := r.Intn(3); k > 0 && r.Chance(1, 3); k-- {
			t.Prefix = append(t.Prefix, strings.Repeat("x", r.Intn(9)))
		}
		if r.Chance(1, 3) {
			// cooperative construction: fragments built by different tasks at the same time
			// are assembled into ONE grammar afterwards
			for k := r.Range(1, 3); k > 0; k-- {
				t.Frags = append(t.Frags, fmt.Sprintf("k%d_%d;", i, k))
			}
		}
		c.Tasks = append(c.Tasks, t)
	}
	switch r.Intn(5) {
	case 0:
		for k := r.Range(1, 3); k > 0; k-- {
			g := r.Intn(ng)
			c.Warm = append(c.Warm, c14Task{Graph: g, Input: c.Graphs[g].genInput(r), Eval: r.Bool() && (c.Graphs[g].Kind != "grammar" || c.Graphs[g].Interp)})
		}
	case 1:
		k := r.Range(20, 60)
		heavy := r.Chance(1, 6)
		if heavy {
			k = r.Range(300, 500) // a long-lived grammar: thousands of tokens seen before the concurrent phase
		}
		for ; k > 0; k-- {
			g := r.Intn(ng)
			in := c.Graphs[g].genInput(r)
			if heavy && c.Graphs[g].Kind == "tokens" {
				var sb strings.Builder
				for j := r.Range(4, 10); j > 0; j-- {
					sb.WriteString(" " + identFromPool(r.Intn(1600)))
				}
				in = sb.String()
			}
			c.Warm = append(c.Warm, c14Task{Graph: g, Input: in})
		}
	}
	c.Sched = genSched(r, nt, 3000)
	if r.Chance(1, 3) {
		c.Sched.AbortTask = int64(r.Range(1, nt))
		c.Sched.AbortAt = int64(r.Range(1, 6))
		if r.Chance(1, 2) {
			c.Sched.AbortAt = int64(r.Range(1, 60))
		}
	}
	if longCase {
		// long inputs need more statements than the default budget allows, and coarse time
		// slices keep the recorded schedule short enough to be replayed
		c.Sched.StepCap = 60000000
		if r.Bool() {
			c.Sched.Policy, c.Sched.Args = sim.PolSticky, [4]int64{4096}
		} else {
			c.Sched.Policy, c.Sched.Args = sim.PolRR, [4]int64{20000}
		}
	}
	if pl.Cold {
		c.Warm = nil // a cold process: first use happens in the concurrent phase
		if longCase {
			c.Sched.AbortTask, c.Sched.AbortAt = 0, 0
		}
	}
	return c
}

func (*c14Prop) Decode(b []byte) (Case, error) {
	c := &c14Case{}
	if err := json.Unmarshal(b, c); err != nil {
		return nil, err
	}
	for _, g := range c.Graphs {
		if g.Kind == "grammar" {
			if g.G == nil {
				return nil, fmt.Errorf("grammar graph without grammar")
			}
			if err := g.G.valid(); err != nil {
				return nil, err
			}
		}
	}
	for _, t := range c.Tasks {
		if t.Graph < 0 || t.Graph >= len(c.Graphs) {
			return nil, fmt.Errorf("task refers to graph %d", t.Graph)
		}
		if t.Construct && (t.Own == nil || (t.Own.Kind == "grammar" && (t.Own.G == nil || t.Own.G.valid() != nil))) {
			return nil, fmt.Errorf("constructor task without a valid graph")
		}
	}
	if c.Sched == nil || len(c.Tasks) < 1 || len(c.Tasks) > sim.MaxTasks {
		return nil, fmt.Errorf("bad case")
	}
	return c, nil
}

// observe runs one parse / evaluate and renders everything the caller can see.
func (t *c14Task) observe(p parsley.Parser) (obs string) {
	obs, _ = t.observeRaw(p)
	return obs
}

// observeRaw also hands back the raw result (value or tree) for the aliasing oracle.
func (t *c14Task) observeRaw(p parsley.Parser) (obs string, raw interface{}) {
	if t.soloCtx != nil {
		return t.observeCtx(p, t.soloCtx())
	}
	return t.observeCtx(p, nil)
}

// derive wraps a (shared) parser the way a caller building a derived grammar would.
func (t *c14Task) derive(p parsley.Parser) parsley.Parser {
	switch t.Derive {
	case "single":
		return combinator.Single(p)
	case "opt":
		return combinator.Optional(p)
	case "memo":
		return combinator.Memoize(p)
	case "suppress":
		return combinator.SuppressError(p)
	case "seq":
		return combinator.SeqOf(p).Bind(concatInterp)
	case "rtrim":
		return text.RightTrim(p, text.WsSpacesNl)
	case "sentence":
		// a sentence of the run's own around the shared root, configured for this run
		// (builder methods on the NEW object the constructor returned)
		return combinator.Sentence(p).Name(fmt.Sprintf("document-%x", fnv(3, t.Input)&0xfff))
	}
	return p
}

// prepare builds the file set, reader and context of a run around an existing file.
func (t *c14Task) prepare(f *text.File) *parsley.Context {
	fs := parsley.NewFileSet()
	if t.Huge > 0 {
		fs.AddFile(&hugeFile{n: t.Huge})
	}
	for i, pre := range t.Prefix {
		fs.AddFile(text.NewFile(fmt.Sprintf("pre%d", i), []byte(pre)))
	}
	fs.AddFile(f)
	return parsley.NewContext(fs, text.NewReader(f))
}

func (t *c14Task) observeCtx(p parsley.Parser, prepared *parsley.Context) (obs string, raw interface{}) {
	defer func() {
		if r := recover(); r != nil {
			if _, ok := r.(sim.Abort); ok {
				panic(r)
			}
			obs = fmt.Sprintf("PANIC %v", r)
		}
	}()
	fs := parsley.NewFileSet(t.common...)
	if t.Huge > 0 {
		fs.AddFile(&hugeFile{n: t.Huge})
	}
	for i, pre := range t.Prefix {
		fs.AddFile(text.NewFile(fmt.Sprintf("pre%d", i), []byte(pre)))
	}
	fname := "in"
	if t.fname != "" {
		fname = t.fname
	}
	f := text.NewFile(fname, []byte(t.Input))
	if t.FromFile && t.path != "" {
		rf, err := text.ReadFile(t.path)
		if err != nil {
			return "READFILE-ERROR " + err.Error(), nil
		}
		f = rf
	}
	fs.AddFile(f)
	ctx := parsley.NewContext(fs, text.NewReader(f))
	if prepared != nil {
		ctx = prepared
	}
	ctx.SetUserContext(fmt.Sprintf("uc%x", fnv(0, t.Input)&0xffff)) // every caller has its own evaluation context
	// ... and its own keyword table (consulted by the user identifier parser of the tokens graph)
	if h := fnv(1, t.Input); h&3 != 0 {
		for i, kw := range []string{"foo_bar", "let", identFromPool(int(h>>8) % 1600), "nil"} {
			if h>>(2+uint(i))&1 == 1 {
				ctx.RegisterKeywords(kw)
			}
		}
	}
	if t.StaticCheck {
		ctx.EnableStaticCheck()
	}
	if t.Transform {
		ctx.EnableTransformation()
	}
	// a corrupted tree may be cyclic: Transform / StaticCheck / Evaluate would then recurse
	// until the runtime kills the process, so the root parser's result is looked at first
	// (the panic is an observation like any other and differs from the solo run)
	root := p
	p = parser.Func(func(ctx *parsley.Context, lrc data.IntMap, pos parsley.Pos) (parsley.Node, data.IntSet, parsley.Error) {
		n, cp, err := root.Parse(ctx, lrc, pos)
		if cyclicTree(n) {
			panic("the tree returned by the root parser contains a node that is its own descendant")
		}
		return n, cp, err
	})
	var sb strings.Builder
	if t.Twice {
		n, err := parsley.Parse(ctx, p)
		s, _ := renderNode(n, 1<<14)
		fmt.Fprintf(&sb, "first=%s err=%v calls=%d | ", s, err, ctx.CallCount())
	}
	if t.Eval {
		v, err := parsley.Evaluate(ctx, p)
		raw = v
		fmt.Fprintf(&sb, "val=%s err=%v", canon(v), err)
	} else {
		n, err := parsley.Parse(ctx, p)
		raw = n
		s, _ := renderNode(n, 1<<16)
		fmt.Fprintf(&sb, "tree=%s err=%v", s, err)
	}
	fmt.Fprintf(&sb, " calls=%d ctxerr=%s", ctx.CallCount(), renderErr(ctx.Error()))
	return sb.String(), raw
}

// mutableParts collects the identities of the mutable objects a caller received: node
// objects (through the Node interface only, never into their private fields, which
// legitimately point at the shared grammar's interpreters), maps, non-empty slices and
// pointers inside evaluated values. Strings and value-type nodes are immutable.
func mutableParts(x interface{}, out map[uintptr]string, depth int) {
	if x == nil || depth > 200 {
		return
	}
	if n, ok := x.(parsley.Node); ok {
		switch v := n.(type) {
		case ast.NodeList:
			for _, e := range v {
				mutableParts(e, out, depth+1)
			}
			return
		case ast.EmptyNode:
			return
		}
		rv := reflect.ValueOf(n)
		if rv.Kind() == reflect.Ptr && !rv.IsNil() {
			if _, seen := out[rv.Pointer()]; seen {
				return
			}
			out[rv.Pointer()] = fmt.Sprintf("node %T %q", n, n.Token())
		}
		if nt, ok := n.(parsley.NonTerminalNode); ok {
			for _, c := range nt.Children() {
				mutableParts(c, out, depth+1)
			}
		}
		if l, ok := n.(parsley.LiteralNode); ok {
			mutableParts(l.Value(), out, depth+1)
		}
		return
	}
	rv := reflect.ValueOf(x)
	switch rv.Kind() {
	case reflect.Map:
		if rv.IsNil() {
			return
		}
		if _, seen := out[rv.Pointer()]; seen {
			return
		}
		out[rv.Pointer()] = fmt.Sprintf("%T of %d entries", x, rv.Len())
		it := rv.MapRange()
		for it.Next() {
			if it.Value().CanInterface() {
				mutableParts(it.Value().Interface(), out, depth+1)
			}
		}
	case reflect.Slice:
		if rv.IsNil() || rv.Cap() == 0 {
			return // an empty slice has no writable element and may share the zero base
		}
		if _, seen := out[rv.Pointer()]; seen {
			return
		}
		if rv.Type().Elem().Kind() != reflect.Uint8 {
			out[rv.Pointer()] = fmt.Sprintf("%T of %d elements", x, rv.Len())
		}
		for i := 0; i < rv.Len(); i++ {
			if rv.Index(i).CanInterface() {
				mutableParts(rv.Index(i).Interface(), out, depth+1)
			}
		}
	case reflect.Ptr:
		if !rv.IsNil() {
			out[rv.Pointer()] = fmt.Sprintf("%T", x)
		}
	}
}

func c14Hash(c *c14Case) uint64 {
	b, _ := json.Marshal(struct {
		G []GraphSpec
		T []c14Task
	}{c.Graphs, c.Tasks})
	return fnv(0, string(b))
}

// strictRoots are package-level values whose contract is "never written".
func strictRoot(name string) bool {
	switch name {
	case "data.EmptyIntSet", "data.EmptyIntMap", "parsley.ErrNoValue", "parsley.NilPosition", "parsley.NilPos",
		"text.wsNoneErr", "text.wsSpacesForceNlErr", "text.wsSpacesErr":
		return true
	}
	return false
}

func (*c14Prop) Run(cc Case) Verdict { return c14Run(cc.(*c14Case), true) }

// c14TinyBudget: cases with a graph that does not terminate on the unchanged tree
// ("manyopt") get step budgets small enough that the runaway recursion stays shallow.
const c14TinyBudget = 40000

var c14SoloCap int64 = 600000000

func c14Unbounded(c *c14Case) bool {
	for i := range c.Graphs {
		if c.Graphs[i].Kind == "manyopt" {
			return true
		}
	}
	for i := range c.Tasks {
		if c.Tasks[i].Own != nil && c.Tasks[i].Own.Kind == "manyopt" {
			return true
		}
	}
	return false
}

func c14Run(c *c14Case, probeSequential bool) Verdict {
	v := Verdict{Probes: map[string]int64{}, Faults: map[string]int64{}}
	c14SoloCap = 600000000
	if c14Unbounded(c) {
		c14SoloCap = c14TinyBudget
		c.Warm = nil
		if c.Sched != nil && (c.Sched.StepCap == 0 || c.Sched.StepCap > c14TinyBudget) {
			c.Sched.StepCap = c14TinyBudget
		}
		v.Probes["cases_with_a_nullable_repetition_operand"]++
	}
	sim.SetMapSeed(c.MapSeed, c.MapIdentity)
	if !c.MapIdentity {
		v.Faults["map_order_stream"] = 1
	}
	n := len(c.Tasks)
	shared := make([]parsley.Parser, len(c.Graphs))
	for i := range c.Graphs {
		shared[i] = c.Graphs[i].construct()
	}
	if len(c.Warm) > 0 {
		// the warm-up parses run as ONE simulated task under a step budget: an ambiguous
		// seeded grammar can blow up on a generated input, and nothing outside the
		// simulator bounds a parse
		winfo := runTasks(1, &SchedSpec{HasExpl: true, StepCap: 30000000}, func(int64) {
			for i := range c.Warm {
				w := &c.Warm[i]
				if w.Graph >= 0 && w.Graph < len(shared) {
					soloObserveRaw(w, shared[w.Graph])
				}
			}
		})
		v.Probes["warm_up_parses"] += int64(len(c.Warm))
		if winfo.OverBudget || winfo.Deadlock {
			v.Discard = "budget"
			return v
		}
	}
	// inputs loaded through text.ReadFile: the harness writes them first (equal inputs
	// share one path), tasks read them concurrently
	var inputDir string
	for i := range c.Tasks {
		t := &c.Tasks[i]
		if !t.FromFile {
			continue
		}
		if inputDir == "" {
			d, err := os.MkdirTemp("", "c14in")
			if err != nil {
				v.Discard = "no-temp-dir"
				return v
			}
			inputDir = d
			defer os.RemoveAll(d)
		}
		t.path = filepath.Join(inputDir, fmt.Sprintf("in-%x.txt", fnv(0, t.Input)))
		if err := os.WriteFile(t.path, []byte(t.Input), 0644); err != nil {
			v.Discard = "no-temp-dir"
			return v
		}
		v.Probes["inputs_loaded_with_ReadFile"]++
	}
	prepared := make([]*parsley.Context, n+1)
	if c.ShareFiles {
		files := map[string]*text.File{}
		for i := range c.Tasks {
			t := &c.Tasks[i]
			if t.FromFile {
				continue
			}
			key := fmt.Sprintf("%q|%q|%d", t.Input, t.Prefix, t.Huge) // same placement => same offset
			f := files[key]
			if f == nil {
				f = text.NewFile("in", []byte(t.Input))
				files[key] = f
			} else {
				v.Probes["runs_sharing_a_file_object"]++
			}
			prepared[i+1] = t.prepare(f)
			f.Position(0) // the caller resolves a position once, which builds the line table
		}
	}
	if c.ShareFileSet && !c.ShareFiles {
		// layout(k) builds a file set with the prelude and the inputs of tasks 1..k from
		// fresh objects and returns the context of task k
		layout := func(upto int) (*parsley.FileSet, *parsley.Context) {
			fs := parsley.NewFileSet()
			fs.AddFile(text.NewFile("prelude", []byte("prelude\n")))
			var ctx *parsley.Context
			for i := 0; i < upto; i++ {
				f := text.NewFile(fmt.Sprintf("in%d", i+1), []byte(c.Tasks[i].Input))
				fs.AddFile(f)
				ctx = parsley.NewContext(fs, text.NewReader(f))
			}
			return fs, ctx
		}
		fs := parsley.NewFileSet()
		fs.AddFile(text.NewFile("prelude", []byte("prelude\n")))
		for i := range c.Tasks {
			t := &c.Tasks[i]
			f := text.NewFile(fmt.Sprintf("in%d", i+1), []byte(t.Input))
			fs.AddFile(f)
			prepared[i+1] = parsley.NewContext(fs, text.NewReader(f))
			k := i + 1
			t.soloCtx = func() *parsley.Context { _, ctx := layout(k); return ctx }
			v.Probes["runs_on_a_shared_file_set"]++
		}
	}
	if len(c.Common) == 2 && !c.ShareFiles && !c.ShareFileSet {
		cl, cc := c.Common[0], c.Common[1]
		mk := func(capacity int) []parsley.File {
			s := make([]parsley.File, 0, capacity)
			for j := 0; j < cl; j++ {
				f := text.NewFile(fmt.Sprintf("common%d", j), []byte(fmt.Sprintf("prelude %d\nline\n", j)))
				f.Position(0)
				s = append(s, f)
			}
			return s
		}
		common := mk(cc)
		for i := range c.Tasks {
			t := &c.Tasks[i]
			t.fname = fmt.Sprintf("in%d", i+1)
			t.Huge, t.Prefix, t.FromFile = 0, nil, false
			if cl == 0 {
				t.common = common // spread by the run itself
				tt := t
				t.soloCtx = func() *parsley.Context {
					f := text.NewFile(tt.fname, []byte(tt.Input))
					fs := parsley.NewFileSet(mk(cc)...)
					fs.AddFile(f)
					return parsley.NewContext(fs, text.NewReader(f))
				}
			} else {
				f := text.NewFile(t.fname, []byte(t.Input))
				fs := parsley.NewFileSet(common...)
				fs.AddFile(f)
				prepared[i+1] = parsley.NewContext(fs, text.NewReader(f))
				tt := t
				t.soloCtx = func() *parsley.Context {
					f := text.NewFile(tt.fname, []byte(tt.Input))
					fs := parsley.NewFileSet(mk(cl)...)
					fs.AddFile(f)
					return parsley.NewContext(fs, text.NewReader(f))
				}
			}
			v.Probes["file_sets_built_from_a_common_prelude_slice"]++
		}
	}
	for i := range c.Tasks {
		if len(c.Tasks[i].Input) > 64 {
			v.Probes["runs_with_an_input_longer_than_64_bytes"]++
		}
	}
	before := snapshotRoots()
	settingsBefore := runtimeSettings()
	obs := make([]string, n+1)
	raws := make([]interface{}, n+1)
	owned := make([]parsley.Parser, n+1)
	frags := make([][]parsley.Parser, n+1)
	info := runTasks(n, c.Sched, func(id int64) {
		t := &c.Tasks[id-1]
		for _, lit := range t.Frags {
			frags[id] = append(frags[id], combinator.Memoize(terminal.Op(lit)))
		}
		p := shared[t.Graph]
		if t.Construct {
			p = t.Own.construct()
			owned[id] = p
		}
		obs[id], raws[id] = t.observeCtx(t.derive(p), prepared[id])
	})
	after := snapshotRoots()
	if sa := runtimeSettings(); sa != settingsBefore && !info.OverBudget && !info.Deadlock {
		v.Violation, v.Class = true, "roots:runtime-setting"
		v.Detail = fmt.Sprintf("a process-wide runtime setting differs after the concurrent runs (all of them returned): %s before, %s after - a library that changes one for the duration of a call restores the wrong value when calls overlap", settingsBefore, sa)
		return v
	}
	v.Steps = info.Steps
	v.Trace = info.TraceHash
	v.Probes["context_switches"] = int64(info.Switches)
	v.Probes["lock_spins"] = info.Spins
	v.Faults["caller_abort"] = info.AbortsFired
	if c.Sched.Policy == sim.PolStall && !c.Sched.HasExpl || c.Sched.Policy == sim.PolStall {
		v.Faults["stalled_caller"] = 1
	}
	if info.Unreplayable {
		v.Discard = "schedule-too-long"
		return v
	}
	if info.Deadlock {
		v.Violation, v.Class = true, "deadlock"
		v.Detail = "a task could not acquire a lock within the spin bound although every other task had been given the turn: concurrent use blocks forever"
		return v
	}
	if info.OverBudget {
		// Bounded liveness. Without locks the number of statements the tasks execute does
		// not depend on the interleaving, so if the same case finishes quickly when the
		// tasks run one after the other (no preemption, no abort), an interleaved run that
		// exhausts a step budget 8x larger means concurrent use does not make progress.
		// Only judged under the fair policies (uniform random, sticky random, round robin):
		// under PCT / k-preemption / stall a correct hand-rolled spin lock may starve by
		// design of the schedule, which is not the library's fault.
		fair := c.Sched.Policy == sim.PolRandom || c.Sched.Policy == sim.PolSticky || c.Sched.Policy == sim.PolRR
		if probeSequential && fair {
			b, _ := json.Marshal(c)
			seq := &c14Case{}
			if json.Unmarshal(b, seq) == nil {
				seq.Sched = &SchedSpec{StepCap: c.Sched.StepCap, HasExpl: true}
				v2 := c14Run(seq, false)
				v.Probes["sequential_reruns_after_budget"]++
				if v2.Discard == "" && !v2.Violation && v2.Steps > 0 && v2.Steps*8 <= c.Sched.StepCap {
					v.Violation, v.Class = true, "livelock"
					v.Detail = fmt.Sprintf("the tasks did not finish within %d steps under this interleaving although the same tasks need only %d steps when run one after the other: concurrent use does not make progress", c.Sched.StepCap, v2.Steps)
					return v
				}
			}
		}
		v.Discard = "budget"
		return v
	}
	constructing := 0
	for i := 1; i <= n; i++ {
		if c.Tasks[i-1].Construct {
			constructing++
		}
	}
	v.Probes["constructor_tasks"] = int64(constructing)
	// (3) shared roots
	changed, grew := diffRoots(before, after)
	for _, name := range changed {
		if strictRoot(name) {
			v.Violation, v.Class = true, "root:"+name
			v.Detail = fmt.Sprintf("package-level value %s, which must never be written, changed during the concurrent phase", name)
			return v
		}
		v.Probes["root_changed:"+name]++
	}
	for _, name := range grew {
		v.Probes["root_counter_grew:"+name]++
	}
	// (6) the results handed to different callers share no mutable object
	parts := make([]map[uintptr]string, n+1)
	for i := 1; i <= n; i++ {
		parts[i] = map[uintptr]string{}
		if info.Ends[i].Aborted == 0 && info.Ends[i].Panic == nil {
			mutableParts(raws[i], parts[i], 0)
		}
		for j := 1; j < i; j++ {
			for ptr, what := range parts[i] {
				if _, ok := parts[j][ptr]; ok {
					v.Violation, v.Class = true, "alias:result"
					v.Detail = fmt.Sprintf("the results returned to task %d (%s, input %q) and task %d (%s, input %q) share a mutable object: %s - a caller changing its result changes the other caller's", j, graphKind(c, &c.Tasks[j-1]), c.Tasks[j-1].Input, i, graphKind(c, &c.Tasks[i-1]), c.Tasks[i-1].Input, what)
					return v
				}
			}
		}
		v.Probes["result_objects_compared"] += int64(len(parts[i]))
	}
	// (7) cooperative construction: the memoised fragments the tasks constructed at the same
	// time, assembled into one grammar, behave like the same fragments constructed one after
	// the other (parser identities must be distinct)
	var lits []string
	var coop, seq []parsley.Parser
	for i := 1; i <= n; i++ {
		if info.Ends[i].Aborted != 0 || len(frags[i]) != len(c.Tasks[i-1].Frags) {
			continue
		}
		for j, lit := range c.Tasks[i-1].Frags {
			lits = append(lits, lit)
			coop = append(coop, frags[i][j])
			seq = append(seq, combinator.Memoize(terminal.Op(lit)))
		}
	}
	if len(lits) >= 2 {
		v.Probes["cooperatively_built_grammars"]++
		for _, mk := range []func(...parsley.Parser) parsley.Parser{
			func(ps ...parsley.Parser) parsley.Parser { return combinator.Choice(ps...) },
			func(ps ...parsley.Parser) parsley.Parser { return combinator.Any(ps...) },
		} {
			gc, gs := combinator.Sentence(combinator.Many(mk(coop...))), combinator.Sentence(combinator.Many(mk(seq...)))
			for k, lit := range lits {
				t := &c14Task{Input: lit + lits[(k+1)%len(lits)]}
				a, b := soloObserve(t, gc), soloObserve(t, gs)
				if a != b {
					v.Violation, v.Class = true, "diverge:construction"
					v.Detail = fmt.Sprintf("a grammar assembled from %d memoised fragments that %d tasks constructed at the same time parses %q differently from the same grammar constructed sequentially\n  concurrently built: %s\n  sequentially built: %s", len(lits), n, t.Input, clip(a), clip(b))
					return v
				}
			}
		}
	}
	// (1) solo differential on twin graphs built after the concurrent phase, then on the
	// very same shared graph
	sim.SetMapSeed(c.MapSeed^0x5eed, c.MapIdentity)
	twins := make([]parsley.Parser, len(c.Graphs))
	for i := range c.Graphs {
		twins[i] = c.Graphs[i].construct()
	}
	active := 0
	for i := 1; i <= n; i++ {
		t := &c.Tasks[i-1]
		end := info.Ends[i]
		var twin parsley.Parser
		if t.Construct {
			twin = t.Own.construct()
		} else {
			twin = twins[t.Graph]
			if t.Derive != "" {
				twin = c.Graphs[t.Graph].construct() // a twin of its own: nothing another baseline derived from is reused
			}
		}
		twin = t.derive(twin)
		solo := soloObserve(t, twin)
		if solo == soloOverBudget {
			v.Discard = "budget"
			return v
		}
		if end.Aborted == 1 {
			v.Probes["aborted_tasks"]++
		} else if end.Aborted != 0 {
			v.Discard = "budget"
			return v
		} else {
			got := obs[i]
			if end.Panic != nil {
				got = "TASK-PANIC " + end.PanicStr
			}
			if got != solo {
				v.Violation, v.Class = true, "diverge:concurrent"
				v.Detail = fmt.Sprintf("task %d (%s graph, input %q) observed\n  concurrent: %s\n  alone:      %s", i, graphKind(c, t), t.Input, clip(got), clip(solo))
				return v
			}
		}
		// the same graph object, used alone after the concurrent phase (also after an abort)
		same := shared[t.Graph]
		if t.Construct {
			same = owned[i]
		}
		if same != nil {
			if post := soloObserve(t, t.derive(same)); post == soloOverBudget {
				v.Discard = "budget"
				return v
			} else if post != solo {
				v.Violation, v.Class = true, "diverge:after"
				v.Detail = fmt.Sprintf("graph used by task %d (%s, input %q) answers differently after the concurrent phase\n  same graph: %s\n  twin graph: %s", i, graphKind(c, t), t.Input, clip(post), clip(solo))
				return v
			}
		}
		if strings.Contains(solo, "err=<nil>") {
			v.Probes["successful_parses"]++
		} else {
			v.Probes["failing_parses"]++
		}
		active++
	}
	v.Fingerprint = fnvU(c14Hash(c), info.SchedHash)
	v.Nontrivial = info.Switches >= 2 && info.Steps >= int64(20*n)
	return v
}

const soloOverBudget = "SOLO-OVER-BUDGET"

// soloObserveRaw runs one parse on the calling goroutine (inside or outside a simulation).
func soloObserveRaw(t *c14Task, p parsley.Parser) (obs string) {
	defer func() {
		if r := recover(); r != nil {
			obs = fmt.Sprintf("TASK-PANIC %v", r)
		}
	}()
	return t.observe(p)
}

// soloObserve runs one parse alone, as a single simulated task under a step budget:
// nothing outside the simulator bounds a parse (an aborted task's input was never run
// to completion in the concurrent phase).
func soloObserve(t *c14Task, p parsley.Parser) string {
	var obs string
	info := runTasks(1, &SchedSpec{HasExpl: true, StepCap: c14SoloCap}, func(int64) { obs = soloObserveRaw(t, p) })
	if info.OverBudget || info.Deadlock {
		return soloOverBudget
	}
	return obs
}

func graphKind(c *c14Case, t *c14Task) string {
	if t.Construct {
		return "own " + t.Own.Kind
	}
	return "shared " + c.Graphs[t.Graph].Kind
}

func clip(s string) string {
	if len(s) > 600 {
		return s[:600] + "..."
	}
	return s
}

func (*c14Prop) Shrink(cc Case) []Case {
	c := cc.(*c14Case)
	var out []Case
	clone := func() *c14Case {
		b, _ := json.Marshal(c)
		k := &c14Case{}
		json.Unmarshal(b, k)
		return k
	}
	// drop a task (explicit schedules refer to task ids: renumber by dropping the schedule)
	if len(c.Tasks) > 1 {
		for i := range c.Tasks {
			k := clone()
			k.Tasks = append(append([]c14Task(nil), k.Tasks[:i]...), k.Tasks[i+1:]...)
			id := int64(i + 1)
			var sw []sim.Switch
			for _, s := range k.Sched.Explicit {
				switch {
				case s.Task == id:
					continue
				case s.Task > id:
					s.Task--
				}
				sw = append(sw, s)
			}
			k.Sched.Explicit = sw
			if k.Sched.AbortTask == id {
				k.Sched.AbortTask, k.Sched.AbortAt = 0, 0
			} else if k.Sched.AbortTask > id {
				k.Sched.AbortTask--
			}
			out = append(out, k)
		}
	}
	// drop an unused shared graph
	if len(c.Graphs) > 1 {
		for gi := range c.Graphs {
			used := false
			for _, t := range c.Tasks {
				if !t.Construct && t.Graph == gi {
					used = true
				}
			}
			if !used {
				k := clone()
				k.Graphs = append(append([]GraphSpec(nil), k.Graphs[:gi]...), k.Graphs[gi+1:]...)
				for ti := range k.Tasks {
					if k.Tasks[ti].Graph > gi {
						k.Tasks[ti].Graph--
					} else if k.Tasks[ti].Graph == gi {
						k.Tasks[ti].Graph = 0
					}
				}
				out = append(out, k)
			}
		}
	}
	for _, s := range shrinkSched(c.Sched) {
		k := clone()
		k.Sched = s
		out = append(out, k)
	}
	for i, t := range c.Tasks {
		if t.Construct {
			k := clone()
			k.Tasks[i].Construct, k.Tasks[i].Own = false, nil
			out = append(out, k)
		}
		if len(t.Prefix) > 0 {
			k := clone()
			k.Tasks[i].Prefix = nil
			out = append(out, k)
		}
		if t.Huge > 0 {
			k := clone()
			k.Tasks[i].Huge = 0
			out = append(out, k)
		}
		if t.Derive != "" {
			k := clone()
			k.Tasks[i].Derive = ""
			out = append(out, k)
		}
		if len(t.Frags) > 0 {
			k := clone()
			k.Tasks[i].Frags = t.Frags[:len(t.Frags)-1]
			out = append(out, k)
		}
		if t.StaticCheck || t.Transform || t.Twice {
			k := clone()
			k.Tasks[i].StaticCheck, k.Tasks[i].Transform, k.Tasks[i].Twice = false, false, false
			out = append(out, k)
		}
		// shorten the input
		for l := len(t.Input) / 2; l >= 1; l /= 2 {
			for s := 0; s+l <= len(t.Input) && s < 4*l; s += l {
				k := clone()
				k.Tasks[i].Input = t.Input[:s] + t.Input[s+l:]
				out = append(out, k)
			}
		}
	}
	if c.ShareFiles || c.ShareFileSet || c.Common != nil {
		k := clone()
		k.ShareFiles, k.ShareFileSet, k.Common = false, false, nil
		out = append(out, k)
	}
	if len(c.Warm) > 0 {
		k := clone()
		k.Warm = nil
		out = append(out, k)
		if len(c.Warm) > 1 {
			k2 := clone()
			k2.Warm = c.Warm[:len(c.Warm)/2]
			out = append(out, k2)
		}
	}
	for gi, g := range c.Graphs {
		if g.Churn > 0 {
			k := clone()
			k.Graphs[gi].Churn = 0
			out = append(out, k)
		}
		if g.Kind == "grammar" {
			for _, sg := range shrinkGrammar(g.G) {
				k := clone()
				k.Graphs[gi].G = sg
				k.Graphs[gi].Order = nil
				out = append(out, k)
			}
		}
	}
	if !c.MapIdentity {
		k := clone()
		k.MapIdentity = true
		out = append(out, k)
	}
	return out
}

// runtimeSettings reads the process-wide settings of the Go runtime that a library could
// change (each is read by setting it and setting it back at once; only the harness's
// main goroutine runs at these points).
func runtimeSettings() string {
	ms := debug.SetMaxStack(1 << 30)
	debug.SetMaxStack(ms)
	gc := debug.SetGCPercent(100)
	debug.SetGCPercent(gc)
	mt := debug.SetMaxThreads(10000)
	debug.SetMaxThreads(mt)
	return fmt.Sprintf("max stack %d, GC percent %d, max threads %d, GOMAXPROCS %d", ms, gc, mt, runtime.GOMAXPROCS(0))
}
