package main

// Rand is the harness PRNG (splitmix64). Every random choice of a run - workload,
// schedule parameters, map-order stream, fault points - derives from one run seed, which
// derives from VERIF_SEED; logging never draws from it.
type Rand struct{ s uint64 }

func NewRand(seed uint64) *Rand { return &Rand{seed} }

func mix(a, b uint64) uint64 {
	z := a + 0x9e3779b97f4a7c15*(b+1)
	z = (z ^ (z >> 30)) * 0xbf58476d1ce4e5b9
	z = (z ^ (z >> 27)) * 0x94d049bb133111eb
	return z ^ (z >> 31)
}

func (r *Rand) U64() uint64 {
	r.s += 0x9e3779b97f4a7c15
	z := r.s
	z = (z ^ (z >> 30)) * 0xbf58476d1ce4e5b9
	z = (z ^ (z >> 27)) * 0x94d049bb133111eb
	return z ^ (z >> 31)
}

// Intn returns a value in [0, n).
func (r *Rand) Intn(n int) int {
	if n <= 0 {
		return 0
	}
	return int(r.U64() % uint64(n))
}

// Range returns a value in [lo, hi].
func (r *Rand) Range(lo, hi int) int { return lo + r.Intn(hi-lo+1) }

func (r *Rand) Bool() bool { return r.U64()&1 == 1 }

// Chance is true with probability num/den.
func (r *Rand) Chance(num, den int) bool { return r.Intn(den) < num }

// Fork derives an independent stream.
func (r *Rand) Fork(tag uint64) *Rand { return &Rand{mix(r.U64(), tag)} }

func (r *Rand) Pick(s string) byte { return s[r.Intn(len(s))] }

func fnv(h uint64, s string) uint64 {
	if h == 0 {
		h = 14695981039346656037
	}
	for i := 0; i < len(s); i++ {
		h = (h ^ uint64(s[i])) * 1099511628211
	}
	return h
}

func fnvU(h uint64, v uint64) uint64 {
	if h == 0 {
		h = 14695981039346656037
	}
	for i := 0; i < 8; i++ {
		h = (h ^ (v & 0xff)) * 1099511628211
		v >>= 8
	}
	return h
}
