package main

import "fmt"

func selftest(args []string) int {
	fmt.Println("selftest: not implemented yet")
	return 0
}
