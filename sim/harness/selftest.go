package main

import (
	"strings"
	"encoding/json"
	"fmt"
	"os"
	"path/filepath"
	"sync"
	"time"
)

// selftest: determinism of the machinery itself. For every property and several seeds the
// same worker batch is executed in many OS processes - plain and -race builds, GOMAXPROCS
// 1 / 4 / 16 - and the digests (fold of every run's case fingerprint, step count, full
// (task, site) trace hash and verdict) must all be equal.
//
//	harness selftest [seeds] [procs-per-config] [runs]
func selftest(args []string) int {
	seeds, procs, runs := 6, 5, 120
	if len(args) > 1 {
		fmt.Sscan(args[1], &seeds)
	}
	if len(args) > 2 {
		fmt.Sscan(args[2], &procs)
	}
	if len(args) > 3 {
		fmt.Sscan(args[3], &runs)
	}
	e := getenv()
	if e.work == "" {
		d, _ := os.MkdirTemp("", "selftest")
		defer os.RemoveAll(d)
		e.work = d
	}
	type cfg struct {
		bin   string
		race  bool
		procs string
	}
	var cfgs []cfg
	for _, gp := range []string{"1", "4", "16"} {
		cfgs = append(cfgs, cfg{e.plain, false, gp})
		if e.race != "" {
			cfgs = append(cfgs, cfg{e.race, true, gp})
		}
	}
	t0 := time.Now()
	total, bad, timedOut := 0, 0, 0
	report := map[string]interface{}{}
	only := os.Getenv("SIM_SELFTEST_ONLY") // "<property>/<plan>": just that batch (written to its own file)
	for _, id := range propIDs() {
		p := props[id]
		for _, pl := range p.Plans("quick") {
			if pl.Race { // the same plan is run on both builds below
				continue
			}
			if only != "" && only != id+"/"+pl.Name {
				continue
			}
			for s := 1; s <= seeds; s++ {
				digests := map[uint64]int{}
				var mu sync.Mutex
				var wg sync.WaitGroup
				sem := make(chan struct{}, e.nproc)
				n := 0
				for ci, c := range cfgs {
					for k := 0; k < procs; k++ {
						n++
						wg.Add(1)
						go func(ci int, c cfg, k int) {
							defer wg.Done()
							sem <- struct{}{}
							defer func() { <-sem }()
							dir := filepath.Join(e.work, fmt.Sprintf("st-%s-%s-%d-%d-%d", id, pl.Name, s, ci, k))
							os.MkdirAll(dir, 0755)
							envv := []string{"GOMAXPROCS=" + c.procs}
							if c.race {
								envv = append(envv, "GORACE=halt_on_error=1 exitcode=66")
							}
							args := []string{"work", id, "-seed", fmt.Sprint(1000 + s), "-worker", "0", "-runs", fmt.Sprint(runs), "-maxtime", "40m", "-out", dir, "-plan", pl.Name, "-variant", fmt.Sprint(pl.Variant), "-size", fmt.Sprint(pl.Size), "-maxviol", "1000000"}
							r := runProc(40*time.Minute, envv, c.bin, args...)
							var o WorkerOut
							b, _ := os.ReadFile(filepath.Join(dir, fmt.Sprintf("worker-%s-0.json", pl.Name)))
							d := uint64(0)
							if r.code == 0 && json.Unmarshal(b, &o) == nil {
								d = o.Digest ^ uint64(o.Runs)<<48
							} else {
								d = uint64(r.code) // a crash is a distinct digest
							}
							os.RemoveAll(dir)
							mu.Lock()
							if r.code == -1 {
								// killed at the time limit (16 processes x GOMAXPROCS 16 of spinning tasks
								// oversubscribe the machine): no digest, counted separately
								timedOut++
							} else {
								digests[d]++
							}
							mu.Unlock()
						}(ci, c, k)
					}
				}
				wg.Wait()
				total += n
				key := fmt.Sprintf("%s/%s/seed%d", id, pl.Name, 1000+s)
				if len(digests) > 1 {
					bad++
					report[key] = fmt.Sprintf("DIVERGED: %v", digests)
					fmt.Printf("selftest: %s: %d processes produced %d different digests: %v\n", key, n, len(digests), digests)
				} else {
					for d := range digests {
						report[key] = fmt.Sprintf("%d processes, digest %016x", n, d)
					}
				}
			}
		}
	}
	out := map[string]interface{}{
		"what":              "same worker batch executed in many OS processes: plain and -race builds x GOMAXPROCS 1/4/16; digests must be identical",
		"processes":         total,
		"runs_per_process":  runs,
		"seeds":             seeds,
		"diverging_batches": bad,
		"processes_killed_at_the_time_limit": timedOut,
		"wall_s":            round2(time.Since(t0).Seconds()),
		"batches":           report,
	}
	os.MkdirAll(filepath.Join(e.verif, "evidence", "selftest"), 0755)
	name := "determinism.json"
	if only != "" {
		name = "determinism-" + strings.Replace(only, "/", "-", -1) + ".json"
	}
	writeJSON(filepath.Join(e.verif, "evidence", "selftest", name), out)
	fmt.Printf("selftest: %d processes, %d diverging batches, %.1fs\n", total, bad, time.Since(t0).Seconds())
	if bad > 0 {
		return 1
	}
	return 0
}
