package main

import (
	"fmt"
	"math"
	"reflect"
	"sort"
	"strings"

	sim "github.com/opsidian/parsley/zzsimrt"
)

// deepHash computes a structural hash of a value reachable from a package-level root.
// Unexported fields are read through kind-specific getters only (never Interface()).
func deepHash(v reflect.Value, seen map[uintptr]bool, depth int) uint64 {
	if depth > 64 || !v.IsValid() {
		return 7
	}
	h := fnv(0, v.Kind().String())
	switch v.Kind() {
	case reflect.Bool:
		if v.Bool() {
			h = fnvU(h, 1)
		}
	case reflect.Int, reflect.Int8, reflect.Int16, reflect.Int32, reflect.Int64:
		h = fnvU(h, uint64(v.Int()))
	case reflect.Uint, reflect.Uint8, reflect.Uint16, reflect.Uint32, reflect.Uint64, reflect.Uintptr:
		h = fnvU(h, v.Uint())
	case reflect.Float32, reflect.Float64:
		h = fnvU(h, math.Float64bits(v.Float()))
	case reflect.Complex64, reflect.Complex128:
		c := v.Complex()
		h = fnvU(fnvU(h, math.Float64bits(real(c))), math.Float64bits(imag(c)))
	case reflect.String:
		h = fnv(h, v.String())
	case reflect.Ptr:
		if v.IsNil() {
			return fnvU(h, 0)
		}
		p := v.Pointer()
		if seen[p] {
			return fnvU(h, 1)
		}
		seen[p] = true
		h = fnvU(h, deepHash(v.Elem(), seen, depth+1))
	case reflect.Interface:
		if v.IsNil() {
			return fnvU(h, 0)
		}
		h = fnv(h, v.Elem().Type().String())
		h = fnvU(h, deepHash(v.Elem(), seen, depth+1))
	case reflect.Struct:
		for i := 0; i < v.NumField(); i++ {
			h = fnvU(h, deepHash(v.Field(i), seen, depth+1))
		}
	case reflect.Slice:
		if v.IsNil() {
			return fnvU(h, 0)
		}
		h = fnvU(h, uint64(v.Len()))
		for i := 0; i < v.Len(); i++ {
			h = fnvU(h, deepHash(v.Index(i), seen, depth+1))
		}
	case reflect.Array:
		for i := 0; i < v.Len(); i++ {
			h = fnvU(h, deepHash(v.Index(i), seen, depth+1))
		}
	case reflect.Map:
		if v.IsNil() {
			return fnvU(h, 0)
		}
		h = fnvU(h, uint64(v.Len()))
		var sum uint64
		it := v.MapRange()
		for it.Next() {
			sum += mix(deepHash(it.Key(), seen, depth+1), deepHash(it.Value(), seen, depth+1))
		}
		h = fnvU(h, sum)
	case reflect.Func, reflect.Chan, reflect.UnsafePointer:
		if v.IsNil() {
			return fnvU(h, 0)
		}
		h = fnvU(h, 1)
	}
	return h
}

type rootSnap struct {
	names  []string
	hashes []uint64
	ints   []int64 // value for integer-kinded roots (monotone counters)
	isInt  []bool
}

// snapshotRoots hashes every package-level variable of the instrumented library. It must
// be called from the main goroutine while no task runs.
func snapshotRoots() *rootSnap {
	s := &rootSnap{}
	for _, r := range sim.Roots() {
		v := reflect.ValueOf(r.Addr)
		if v.Kind() != reflect.Ptr || v.IsNil() {
			continue
		}
		e := v.Elem()
		s.names = append(s.names, r.Pkg+"."+r.Name)
		s.hashes = append(s.hashes, deepHash(e, map[uintptr]bool{}, 0))
		switch e.Kind() {
		case reflect.Int, reflect.Int8, reflect.Int16, reflect.Int32, reflect.Int64:
			s.ints = append(s.ints, e.Int())
			s.isInt = append(s.isInt, true)
		case reflect.Uint, reflect.Uint8, reflect.Uint16, reflect.Uint32, reflect.Uint64:
			s.ints = append(s.ints, int64(e.Uint()))
			s.isInt = append(s.isInt, true)
		default:
			s.ints = append(s.ints, 0)
			s.isInt = append(s.isInt, false)
		}
	}
	return s
}

// diffRoots lists roots whose deep value changed; integer roots that only grew are
// reported separately (allocation counters).
func diffRoots(a, b *rootSnap) (changed, grew []string) {
	for i := range a.names {
		if i >= len(b.names) || a.hashes[i] == b.hashes[i] {
			continue
		}
		if a.isInt[i] && b.ints[i] > a.ints[i] {
			grew = append(grew, a.names[i])
		} else {
			changed = append(changed, a.names[i])
		}
	}
	sort.Strings(changed)
	sort.Strings(grew)
	return
}

// canon renders an evaluation result deterministically (maps sorted by key).
func canon(v interface{}) string {
	switch x := v.(type) {
	case map[string]interface{}:
		ks := make([]string, 0, len(x))
		for k := range x {
			ks = append(ks, k)
		}
		sort.Strings(ks)
		var sb strings.Builder
		sb.WriteString("{")
		for _, k := range ks {
			fmt.Fprintf(&sb, "%q:%s,", k, canon(x[k]))
		}
		return sb.String() + "}"
	case []interface{}:
		var sb strings.Builder
		sb.WriteString("[")
		for _, e := range x {
			sb.WriteString(canon(e) + ",")
		}
		return sb.String() + "]"
	default:
		return fmt.Sprintf("%T(%v)", v, v)
	}
}
