package main

import (
	"sort"
	"bytes"
	"encoding/json"
	"fmt"
	"reflect"
	"strings"

	"github.com/opsidian/parsley/ast"
	"github.com/opsidian/parsley/combinator"
	"github.com/opsidian/parsley/data"
	"github.com/opsidian/parsley/parser"
	"github.com/opsidian/parsley/parsley"
	"github.com/opsidian/parsley/text"
	"github.com/opsidian/parsley/text/terminal"
	sim "github.com/opsidian/parsley/zzsimrt"
)

// C07 - a returned result is never modified afterwards.
//
// System under simulation: ONE parsley.Context (one result cache) and the node objects
// it hands out. Clients: 2-4 simulated consumers that, in a seeded order, parse the
// grammar from position 0 or request a pool parser / an enclosing combinator built on
// the spot around pool parsers at any position. Every parser is wrapped by a
// pass-through recorder. Invariant, checked at every entry and every return of every
// wrapped parser: every node object and every result list that was ever reachable from a
// returned result still reads the same (token, value, positions, children identity,
// list membership). The culprit is the innermost active parser at the moment a change
// is first seen.

type c07Step struct {
	Consumer int    `json:"consumer"`
	Kind     string `json:"kind"` // root | pool | wrap
	Node     int    `json:"node,omitempty"`
	Pos      int    `json:"pos,omitempty"`
	Wrap     string `json:"wrap,omitempty"`
	Arg      string `json:"arg,omitempty"`
	Mode     string `json:"mode,omitempty"`
	Other    int    `json:"other,omitempty"` // second pool parser for any-pool / seq-pool
}

type c07Case struct {
	G           *Grammar  `json:"g"`
	Input       string    `json:"input"`
	Steps       []c07Step `json:"steps"`
	MapSeed     uint64    `json:"map_seed"`
	MapIdentity bool      `json:"map_identity"`
	Prefix      int       `json:"prefix,omitempty"` // length of a file placed before the input in the file set
}

type c07Prop struct{}

func init() { props["C07"] = &c07Prop{} }

func (*c07Prop) Level() string { return "exploration" }
func (*c07Prop) Rule() string {
	return "case = seeded grammar (random DAG with recursion, left-recursive templates P->Pb|a, indirect pairs, expr/term/factor, ambiguous S->SS|a, hidden left recursion, shared multi-result memoised parser with several consumers) + input + a seeded history of 2-4 consumers' requests on ONE shared context (parse from 0; pool parser at any position; Any/Choice/Optional/SeqOf/Many/SepBy/Single/LeftTrim/RightTrim/ReturnSingle/Sentence built on the spot around a pool parser); the frozen-result invariant is evaluated at every entry and return of every wrapped parser; non-trivial = at least one cache hit was served and >= 3 node objects are tracked; distinct = different hash of (grammar, input, steps)"
}
func (*c07Prop) Assumptions() []string {
	return []string{
		"a result is observed through the public Node interface: dynamic type, Token, Pos, ReaderPos, literal Value, Children identity, list length and element identity",
		"re-requests inside a parse with a non-empty left-recursion context and warm-vs-cold context equality are deliberately not oracles (curtailment-dependent subsets on cyclic grammars, DESIGN.md C07)",
		"the top-level re-request oracle is suspended for the rest of a case once the open RightTrim finding has fired in it (the cached node it compares was legitimately attributed)",
		"cases over the depth / call / list-length budget are discarded and counted, never judged",
	}
}
func (*c07Prop) Components() map[string]interface{} {
	return map[string]interface{}{"real": []string{"combinator.* (Memoize, Seq, Any, Choice, Optional, Many, SepBy, Single, Sentence)", "parsley.Context / ResultCache", "ast (NodeList, AppendNode, SetReaderPos, nodes)", "text trims and reader", "text/terminal Rune / Op", "data.IntMap / IntSet"},
		"stub": []string{}, "harness_owned": []string{"pass-through recorders around every parser", "consumer request generator", "frozen-result monitor"}}
}

func (*c07Prop) Plans(tier string) []Plan {
	if tier == "quick" {
		return []Plan{{Name: "consumers", Workers: 16, Runs: 20000, MaxTime: 45e9, Size: 12}}
	}
	return []Plan{{Name: "consumers", Workers: 16, Runs: 4000000, MaxTime: 600e9, Size: 20}, {Name: "consumers-small", Workers: 16, Runs: 4000000, MaxTime: 300e9, Size: 7}}
}

var c07Wraps = []string{"fwrap-any", "any-pool", "any-pool", "seq-pool", "any-x", "any-x", "any-rev", "choice", "opt", "seq-y", "seq-opt", "many", "sepby", "single", "ltrim", "rtrim", "returnsingle", "sentence", "memo"}

// leftRecTemplate returns one of the classic left-recursive shapes.
func leftRecTemplate(r *Rand) *Grammar {
	a, b := string(r.Pick("ab")), string(r.Pick("ab"))
	switch r.Intn(7) {
	case 6:
		// the curtailing-set analogue of the shared multi-result parser: five simple
		// left-recursive nonterminals L1..L5; m = Memo(Any(L1, L2, L3)) is consumed by
		// Any(m, L4) and by Any(m, L5). Nodes are constructed from the highest index down, so
		// L1 gets the smallest parser index and the merged sets grow in ascending order.
		g := &Grammar{}
		add := func(n GNode) int { g.Nodes = append(g.Nodes, n); return len(g.Nodes) - 1 }
		root := add(GNode{Op: "any"})
		c1 := add(GNode{Op: "any"})
		c2 := add(GNode{Op: "any"})
		m := add(GNode{Op: "any", Memo: true})
		var ls [5]int
		for i := 4; i >= 0; i-- { // L5 first: lowest node index among the L's = constructed last
			l := add(GNode{Op: "any", Memo: true})
			sq := add(GNode{Op: "seq"})
			t1 := add(GNode{Op: "rune", Arg: b})
			t2 := add(GNode{Op: "rune", Arg: a})
			g.Nodes[sq].Kids = []int{l, t1}
			g.Nodes[l].Kids = []int{sq, t2}
			ls[i] = l
		}
		g.Nodes[m].Kids = []int{ls[0], ls[1], ls[2]}
		g.Nodes[c1].Kids = []int{m, ls[3]}
		g.Nodes[c2].Kids = []int{m, ls[4]}
		g.Nodes[root].Kids = []int{c1, c2}
		g.Root = root
		return g
	case 0: // P -> P b | a
		return &Grammar{Root: 0, Nodes: []GNode{{Op: "any", Kids: []int{1, 3}, Memo: true}, {Op: "seq", Kids: []int{0, 2}}, {Op: "rune", Arg: b}, {Op: "rune", Arg: a}}}
	case 1: // A -> B a | a ; B -> A b | b
		return &Grammar{Root: 0, Nodes: []GNode{
			{Op: "any", Kids: []int{1, 2}, Memo: true}, {Op: "seq", Kids: []int{3, 2}}, {Op: "rune", Arg: a},
			{Op: "any", Kids: []int{4, 5}, Memo: true}, {Op: "seq", Kids: []int{0, 5}}, {Op: "rune", Arg: b}}}
	case 2: // S -> S S | a   (ambiguous)
		return &Grammar{Root: 0, Nodes: []GNode{{Op: "any", Kids: []int{1, 2}, Memo: true}, {Op: "seq", Kids: []int{0, 0}}, {Op: "rune", Arg: a}}}
	case 3: // expr -> expr b term | term ; term -> term a factor | factor ; factor -> b | a   (letters as operators)
		return &Grammar{Root: 0, Nodes: []GNode{
			{Op: "any", Kids: []int{1, 3}, Memo: true}, {Op: "seq", Kids: []int{0, 2, 3}}, {Op: "op", Arg: "b"},
			{Op: "any", Kids: []int{4, 6}, Memo: true}, {Op: "seq", Kids: []int{3, 5, 6}}, {Op: "op", Arg: "ab"},
			{Op: "choice", Kids: []int{7, 8}, Memo: true}, {Op: "rune", Arg: "a"}, {Op: "rune", Arg: "b"}}}
	case 4: // P -> (P | a | P?) b   (the shape named in C01's why_tests_cant)
		return &Grammar{Root: 0, Nodes: []GNode{{Op: "seq", Kids: []int{1, 4}, Memo: true}, {Op: "any", Kids: []int{0, 2, 3}}, {Op: "rune", Arg: a}, {Op: "opt", Kids: []int{0}}, {Op: "rune", Arg: b}}}
	default: // P -> P b? | a  with an optional tail
		return &Grammar{Root: 0, Nodes: []GNode{{Op: "any", Kids: []int{1, 4}, Memo: true}, {Op: "seq", Kids: []int{0, 2}}, {Op: "opt", Kids: []int{3}}, {Op: "rune", Arg: b}, {Op: "rune", Arg: a}}}
	}
}

func (*c07Prop) Gen(r *Rand, pl *Plan) Case {
	size := pl.Size
	if size <= 0 {
		size = 12
	}
	c := &c07Case{MapSeed: r.U64(), MapIdentity: r.Chance(1, 8), Prefix: genPrefix(r)}
	alphabet := "ab"
	switch r.Intn(10) {
	case 0, 1, 2:
		c.G = leftRecTemplate(r)
	case 3, 4:
		c.G = sharedConsumerGrammar(r)
		alphabet = "abcd"
	case 5, 6:
		c.G = genGrammar(r, &genOpts{MaxNodes: r.Range(3, size), Alphabet: alphabet, Trims: true, LeftRec: true, MemoChance: r.Range(20, 70)})
	default:
		c.G = genGrammar(r, &genOpts{MaxNodes: r.Range(3, size), Alphabet: alphabet, Trims: r.Chance(2, 3), MemoChance: r.Range(30, 80), Names: r.Chance(1, 3), Rich: r.Chance(1, 3), Guards: r.Chance(1, 6)})
	}
	if c.G.analyze().AnyLeft {
		// left-recursive inputs stay short: ambiguous cyclic grammars blow up quickly
		c.Input = c.G.genInput(r, alphabet, 5)
	} else if hasRich(c.G) {
		c.Input = c.G.genInput(r, alphabet, 28) // room for several literals
	} else {
		c.Input = c.G.genInput(r, alphabet, 9)
	}
	if alphabet == "abcd" && r.Chance(2, 3) {
		c.Input = []string{"abcd", "abcda", "ab", "abc", "aabcd"}[r.Intn(5)]
	}
	if !hasRich(c.G) && !hasOp(c.G, "upanic") && r.Chance(1, 6) {
		// the same grammar over a non-ASCII alphabet (requests may start inside a rune)
		to := []string{"é", "世", "\U0001F600"}[r.Intn(3)]
		c.G.translit('b', to)
		c.Input = strings.Replace(c.Input, "b", to, -1)
	}
	if r.Chance(1, 8) {
		c.Input = stretchWs(r, c.Input)
	}
	consumers := r.Range(2, 4)
	nsteps := r.Range(2, 10)
	memoNodes := []int{}
	for i, n := range c.G.Nodes {
		if n.Memo {
			memoNodes = append(memoNodes, i)
		}
	}
	for i := 0; i < nsteps; i++ {
		s := c07Step{Consumer: r.Intn(consumers)}
		switch {
		case r.Chance(1, 8):
			s.Kind = "parse" // the whole parsley.Parse pipeline (parse, Transform, StaticCheck) on the shared context
			if r.Chance(1, 2) {
				s.Kind = "eval" // ... and the result evaluated twice (library Array interpreter on SepBy nodes)
			}
		case r.Chance(1, 4):
			s.Kind = "root"
		default:
			s.Kind = "wrap"
			if r.Chance(1, 3) {
				s.Kind = "pool"
			}
			if len(memoNodes) > 0 && r.Chance(3, 4) {
				s.Node = memoNodes[r.Intn(len(memoNodes))]
			} else {
				s.Node = r.Intn(len(c.G.Nodes))
			}
			s.Pos = r.Intn(len(c.Input) + 1)
			if r.Chance(1, 2) {
				s.Pos = 0
			}
			s.Wrap = c07Wraps[r.Intn(len(c07Wraps))]
			s.Arg = string(r.Pick(alphabet))
			if r.Chance(1, 3) {
				s.Arg += string(r.Pick(alphabet))
			}
			s.Mode = fmt.Sprint(r.Intn(4))
			s.Other = r.Intn(len(c.G.Nodes))
			if len(memoNodes) > 0 && r.Chance(3, 4) {
				s.Other = memoNodes[r.Intn(len(memoNodes))]
			}
		}
		c.Steps = append(c.Steps, s)
	}
	return c
}

func (*c07Prop) Decode(b []byte) (Case, error) {
	c := &c07Case{}
	if err := json.Unmarshal(b, c); err != nil {
		return nil, err
	}
	if c.G == nil {
		return nil, fmt.Errorf("no grammar")
	}
	if err := c.G.valid(); err != nil {
		return nil, err
	}
	a := c.G.analyze()
	if a.BadRep {
		return nil, fmt.Errorf("nullable repetition operand: outside the premise")
	}
	if a.Unguarded {
		return nil, fmt.Errorf("a left-recursive cycle contains no memoised parser: outside the premise")
	}
	for _, s := range c.Steps {
		if s.Node < 0 || s.Node >= len(c.G.Nodes) || s.Pos < 0 || s.Pos > len(c.Input) {
			return nil, fmt.Errorf("bad step")
		}
	}
	return c, nil
}

// ---- monitor ----------------------------------------------------------------------------------

type kidKey struct {
	ptr  interface{}   // identity of a pointer node (nil for value nodes and lists)
	repr string        // value nodes: type and value
	lptr *parsley.Node // lists: first element slot
	llen int
}

type shallow struct {
	typ, token string
	pos, rpos  parsley.Pos
	val        string
	kids       []kidKey
}

type listKey struct {
	p *parsley.Node
	n int
}

type frame struct {
	label string
	idx   int
	// what the direct children of this invocation returned at top level (the node, or the
	// list and its elements): RightTrim may only ever write to those
	childTop   map[interface{}]bool
	childLists map[*parsley.Node]bool // by backing array: an earlier, shorter list may share it
}

type c07Violation struct {
	class, detail, culprit, field string
}

// cacheSnap is how a stored *parsley.Result read when the monitor first saw it.
type cacheSnap struct {
	node kidKey
	cp   string
	lrc  string
	err  string
}

func snapResult(r *parsley.Result) cacheSnap {
	s := cacheSnap{cp: renderCP(r.CurtailingParsers), err: renderErr(r.Error)}
	if r.Node != nil {
		s.node = keyOf(r.Node)
	}
	var kv []string
	r.LeftRecCtx.Each(func(k, v int) { kv = append(kv, fmt.Sprintf("%d:%d", k, v)) })
	sort.Strings(kv)
	s.lrc = strings.Join(kv, ",")
	return s
}

// scanCache freezes the entries of the context's result cache (public API: a tracer or a
// custom memoiser holds the *Result that Get handed out): an entry object must keep
// reading the same - a later Save may replace the entry, never rewrite it. The cache is
// walked by reflection so that a library with another cache layout still builds.
func (m *monitor) scanCache() {
	if m.ctx == nil || m.viol != nil {
		return
	}
	rv := reflect.ValueOf(m.ctx.ResultCache())
	if rv.Kind() != reflect.Map {
		return
	}
	it := rv.MapRange()
	for it.Next() {
		inner := it.Value()
		if inner.Kind() != reflect.Map {
			return
		}
		it2 := inner.MapRange()
		for it2.Next() {
			r, ok := it2.Value().Interface().(*parsley.Result)
			if !ok || r == nil {
				continue
			}
			now := snapResult(r)
			old, seen := m.cache[r]
			if !seen {
				m.cache[r] = now
				continue
			}
			if now != old {
				cu := m.culprit()
				m.viol = &c07Violation{class: "frozen:cache-entry", culprit: cu.label, field: "result",
					detail: fmt.Sprintf("a *parsley.Result stored in the context's result cache (parser index %v, position %v) was rewritten in place while parser %q (grammar node %d) was running: curtailing set {%s} -> {%s}, left-recursion context {%s} -> {%s}, error %s -> %s, node identity changed: %v", it.Key(), it2.Key(), cu.label, cu.idx, old.cp, now.cp, old.lrc, now.lrc, old.err, now.err, old.node != now.node)}
				return
			}
		}
	}
}

type monitor struct {
	kidArrays map[*parsley.Node]parsley.Node // first slot of a built node's children array -> that node
	ctx       *parsley.Context
	cache map[*parsley.Result]cacheSnap
	text []byte      // the parsed file's (normalised) content and the global position of its first byte
	base parsley.Pos
	nodes     map[interface{}]*shallow
	nodeOrder []parsley.Node
	lists     map[listKey][]kidKey
	listOrder []ast.NodeList
	stack     []frame
	depth     int
	calls     int
	viol      *c07Violation
	known     int
	knownOpen bool
	hits      int
	innerRuns int
	outerMemo int
	// reused: node objects that a sequence-type parser (which builds its result nodes
	// itself) handed out although they had been handed out before - a sharing channel
	// other than the result cache
	reused map[interface{}]string
	// curtailing-parser sets returned next to a node: part of a memoised parser's answer,
	// stored in the cache entry and handed to every later caller
	cps    []data.IntSet
	cpText []string
}

const c07Known = "C07-rtrim-readerpos"

func newMonitor() *monitor {
	return &monitor{nodes: map[interface{}]*shallow{}, lists: map[listKey][]kidKey{}, knownOpen: openFindings[c07Known], reused: map[interface{}]string{}, cache: map[*parsley.Result]cacheSnap{}, kidArrays: map[*parsley.Node]parsley.Node{}}
}

func isPtrNode(n parsley.Node) bool {
	switch n.(type) {
	case *ast.TerminalNode, *ast.NonTerminalNode, *terminal.OpNode:
		return true
	case ast.EmptyNode, ast.NodeList, parser.EndNode:
		return false
	}
	// any other node type: pointers have identity, value types are compared by value
	return reflect.ValueOf(n).Kind() == reflect.Ptr
}

func keyOf(n parsley.Node) kidKey {
	switch x := n.(type) {
	case nil:
		return kidKey{repr: "<nil>"}
	case ast.NodeList:
		if len(x) == 0 {
			return kidKey{repr: "emptylist"}
		}
		return kidKey{lptr: &x[0], llen: len(x)}
	}
	if isPtrNode(n) {
		return kidKey{ptr: n}
	}
	return kidKey{repr: fmt.Sprintf("%T:%v@%d..%d", n, n.Token(), n.Pos(), n.ReaderPos())}
}

func shallowOf(n parsley.Node) *shallow {
	s := &shallow{typ: fmt.Sprintf("%T", n), token: n.Token(), pos: n.Pos(), rpos: n.ReaderPos()}
	if l, ok := n.(parsley.LiteralNode); ok {
		v := l.Value() // read exactly once per snapshot: reading is an observation, too
		s.val = fmt.Sprintf("%T:%v", v, v)
	}
	if nt, ok := n.(parsley.NonTerminalNode); ok {
		for _, c := range nt.Children() {
			s.kids = append(s.kids, keyOf(c))
		}
	}
	return s
}

func listSnap(nl ast.NodeList) []kidKey {
	out := make([]kidKey, len(nl))
	for i, e := range nl {
		out[i] = keyOf(e)
	}
	return out
}

// track registers everything reachable from a returned result.
func (m *monitor) track(n parsley.Node) {
	switch x := n.(type) {
	case nil:
		return
	case ast.NodeList:
		if len(x) == 0 {
			return
		}
		k := listKey{&x[0], len(x)}
		if _, ok := m.lists[k]; !ok {
			m.lists[k] = listSnap(x)
			m.listOrder = append(m.listOrder, x)
		}
		for _, e := range x {
			m.track(e)
		}
		return
	}
	if !isPtrNode(n) {
		return
	}
	if _, ok := m.nodes[n]; ok {
		return
	}
	m.nodes[n] = shallowOf(n)
	m.nodeOrder = append(m.nodeOrder, n)
	if nt, ok := n.(parsley.NonTerminalNode); ok {
		for _, c := range nt.Children() {
			m.track(c)
		}
	}
}

func (m *monitor) culprit() frame {
	if len(m.stack) == 0 {
		return frame{label: "(no parser running: consumer or the parsley.Parse pipeline after parsing)", idx: -1}
	}
	return m.stack[len(m.stack)-1]
}

func sameKids(a, b []kidKey) (int, bool) {
	if len(a) != len(b) {
		return -1, false
	}
	for i := range a {
		if a[i] != b[i] {
			return i, false
		}
	}
	return 0, true
}

// maximalWsMove: to is the end of the run of whitespace bytes that starts at from.
func (m *monitor) maximalWsMove(from, to parsley.Pos) bool {
	isWs := func(b byte) bool { return b == ' ' || b == '\t' || b == '\n' || b == '\f' }
	o, c := int(from-m.base), int(to-m.base)
	if o < 0 || c <= o || c > len(m.text) {
		return false
	}
	for _, b := range m.text[o:c] {
		if !isWs(b) {
			return false
		}
	}
	return c == len(m.text) || !isWs(m.text[c])
}

// checkAll re-reads every tracked object. The first change is classified; a change that
// carries the signature of the open RightTrim finding is counted, re-baselined (only that
// field) and checking continues.
func (m *monitor) checkAll() {
	if m.viol != nil {
		return
	}
	defer m.scanCache()
	for _, n := range m.nodeOrder {
		old := m.nodes[n]
		cur := shallowOf(n)
		field := ""
		switch {
		case cur.typ != old.typ:
			field = "type"
		case cur.token != old.token:
			field = "token"
		case cur.pos != old.pos:
			field = "pos"
		case cur.val != old.val:
			field = "value"
		case cur.rpos != old.rpos:
			field = "readerPos"
		default:
			if _, ok := sameKids(cur.kids, old.kids); !ok {
				field = "children"
			}
		}
		if field == "" {
			continue
		}
		cu := m.culprit()
		if field == "readerPos" && cu.label == "rtrim" && m.knownOpen {
			if !cu.childTop[n] {
				// the open finding is about the node RightTrim's operand returned (or the
				// elements of the returned list); this node lies deeper
				m.viol = &c07Violation{class: "frozen:readerPos", culprit: cu.label, field: field,
					detail: fmt.Sprintf("readerPos of a %s node returned earlier (token %q, %d..%d) changed to %d while parser %q was running, and the node is NOT the result its operand had just returned (nor an element of the returned list) but a node below it", old.typ, old.token, old.pos, old.rpos, cur.rpos, cu.label)}
				return
			}
			if by, shared := m.reused[n]; shared {
				// not the open finding's history: the node is shared because an un-memoised
				// sequence parser handed out the same object twice
				m.viol = &c07Violation{class: "frozen:readerPos", culprit: cu.label, field: field,
					detail: fmt.Sprintf("readerPos of a %s node returned earlier (token %q, %d..%d) changed to %d while parser %q was running; the node is held by two consumers because the un-memoised parser %q handed out the same node object from two separate calls", old.typ, old.token, old.pos, old.rpos, cur.rpos, cu.label, by)}
				return
			}
			if m.text != nil && !m.maximalWsMove(old.rpos, cur.rpos) {
				// not what the pinned RightTrim does: it moves a reader position to the END of
				// the whitespace run that follows it (SkipWhitespaces, in every mode), once
				m.viol = &c07Violation{class: "frozen:readerPos", culprit: cu.label, field: field,
					detail: fmt.Sprintf("readerPos of a %s node returned earlier (token %q, %d..%d) changed to %d while parser %q was running, and %d is not the end of the whitespace run following %d (the open RightTrim finding moves a position to the end of that run, and a second trim then changes nothing)", old.typ, old.token, old.pos, old.rpos, cur.rpos, cu.label, cur.rpos, old.rpos)}
				return
			}
			m.known++
			old.rpos = cur.rpos
			continue
		}
		m.viol = &c07Violation{class: "frozen:" + field, culprit: cu.label, field: field,
			detail: fmt.Sprintf("%s of a %s node returned earlier (token %q, %d..%d) changed to %s while parser %q (grammar node %d) was running", field, old.typ, old.token, old.pos, old.rpos, describe(cur, field), cu.label, cu.idx)}
		return
	}
	for i, cp := range m.cps {
		if now := renderCP(cp); now != m.cpText[i] {
			cu := m.culprit()
			m.viol = &c07Violation{class: "frozen:curtailing-set", culprit: cu.label, field: "cp",
				detail: fmt.Sprintf("a curtailing-parser set returned earlier next to a result read {%s} and reads {%s} now (changed while parser %q, grammar node %d, was running): the stored answer of a memoised parser was modified", m.cpText[i], now, cu.label, cu.idx)}
			return
		}
	}
	for _, nl := range m.listOrder {
		k := listKey{&nl[0], len(nl)}
		old := m.lists[k]
		cur := listSnap(nl)
		i, ok := sameKids(cur, old)
		if ok {
			continue
		}
		cu := m.culprit()
		// RightTrim replaces an EmptyNode element by another EmptyNode (value type): the
		// same in-place SetReaderPos mechanism
		if cu.label == "rtrim" && m.knownOpen && cu.childLists[k.p] && i >= 0 && old[i].ptr == nil && cur[i].ptr == nil && strings.HasPrefix(old[i].repr, "ast.EmptyNode") && strings.HasPrefix(cur[i].repr, "ast.EmptyNode") {
			m.known++
			old[i] = cur[i]
			continue
		}
		m.viol = &c07Violation{class: "frozen:list-element", culprit: cu.label, field: "list",
			detail: fmt.Sprintf("element %d of a result list of %d alternatives returned earlier was replaced (%s -> %s) while parser %q (grammar node %d) was running", i, len(nl), descKey(old, i), descKey(cur, i), cu.label, cu.idx)}
		return
	}
}

func describe(s *shallow, field string) string {
	switch field {
	case "readerPos":
		return fmt.Sprint(s.rpos)
	case "pos":
		return fmt.Sprint(s.pos)
	case "token":
		return s.token
	case "value":
		return s.val
	case "children":
		return fmt.Sprintf("%d children", len(s.kids))
	}
	return s.typ
}

func descKey(k []kidKey, i int) string {
	if i < 0 || i >= len(k) {
		return "?"
	}
	if k[i].ptr != nil {
		n := k[i].ptr.(parsley.Node)
		return fmt.Sprintf("%T %q %d..%d", n, n.Token(), n.Pos(), n.ReaderPos())
	}
	return k[i].repr
}

type recP struct {
	m     *monitor
	label string
	idx   int
	inner bool
	memo  bool
	fresh bool // sequence-type parser without ReturnSingle: builds its own result nodes
	p     parsley.Parser
}

func (r recP) Parse(ctx *parsley.Context, lrc data.IntMap, pos parsley.Pos) (parsley.Node, data.IntSet, parsley.Error) {
	m := r.m
	m.calls++
	m.depth++
	if m.depth > 500 {
		panic(discard{"depth-budget"})
	}
	if m.calls > 4000 {
		panic(discard{"call-budget"})
	}
	if r.inner {
		m.innerRuns++
	} else if r.memo {
		m.outerMemo++
	}
	m.checkAll()
	depth0, stack0 := m.depth-1, len(m.stack)
	m.stack = append(m.stack, frame{label: r.label, idx: r.idx})
	defer func() {
		if p := recover(); p != nil {
			// a panic on its way to a guard further up: this invocation is over
			m.depth, m.stack = depth0, m.stack[:stack0]
			panic(p)
		}
	}()
	n, cp, err := r.p.Parse(ctx, lrc, pos)
	if nl, ok := n.(ast.NodeList); ok && len(nl) > 64 {
		panic(discard{"list-budget"})
	}
	if r.fresh {
		// a sequence-type parser constructs its result nodes itself: every one is new
		check := func(t parsley.Node) {
			if isPtrNode(t) {
				if _, seen := m.nodes[t]; seen {
					m.reused[t] = r.label
					return
				}
			}
			// a node this sequence has just built: its children are the results of one path
			// through the operands, in order (each starts where the previous one ended or
			// later), in an array of its own. A node whose child array is still the
			// sequence's scratch buffer reads like another path by now.
			nt, ok := t.(parsley.NonTerminalNode)
			if !ok || !isPtrNode(t) || m.viol != nil {
				return
			}
			kids := nt.Children()
			if len(kids) > 0 {
				if other, dup := m.kidArrays[&kids[0]]; dup && other != t {
					m.viol = &c07Violation{class: "frozen:children", culprit: r.label, field: "children",
						detail: fmt.Sprintf("two result nodes built by parser %q (grammar node %d) share one children array (%d..%d and %d..%d): the array belongs to neither of them", r.label, r.idx, other.Pos(), other.ReaderPos(), t.Pos(), t.ReaderPos())}
					return
				}
				m.kidArrays[&kids[0]] = t
			}
			if m.known > 0 {
				return // the open RightTrim finding may have moved a child's end after the fact
			}
			for i := 0; i+1 < len(kids); i++ {
				a, b := kids[i], kids[i+1]
				if a == nil || b == nil {
					continue
				}
				if _, isList := a.(ast.NodeList); isList {
					continue
				}
				if _, isList := b.(ast.NodeList); isList {
					continue
				}
				if b.Pos() < a.ReaderPos() && b.ReaderPos() < a.ReaderPos() {
					m.viol = &c07Violation{class: "frozen:children", culprit: r.label, field: "children",
						detail: fmt.Sprintf("a result node built by parser %q (grammar node %d, %d..%d) has children that are not one path through its operands: child %d ends at %d, child %d covers %d..%d - the child array was rewritten between the result handler's return and the parser's", r.label, r.idx, t.Pos(), t.ReaderPos(), i, a.ReaderPos(), i+1, b.Pos(), b.ReaderPos())}
					return
				}
			}
		}
		if nl, ok := n.(ast.NodeList); ok {
			for _, e := range nl {
				check(e)
			}
		} else if n != nil {
			check(n)
		}
	}
	m.track(n)
	if cp.Len() > 0 && len(m.cps) < 400 {
		m.cps = append(m.cps, cp)
		m.cpText = append(m.cpText, renderCP(cp))
	}
	m.checkAll()
	m.stack = m.stack[:len(m.stack)-1]
	m.depth--
	// tell the caller's frame what it received at top level
	if len(m.stack) > 0 && n != nil {
		pf := &m.stack[len(m.stack)-1]
		if pf.childTop == nil {
			pf.childTop, pf.childLists = map[interface{}]bool{}, map[*parsley.Node]bool{}
		}
		if nl, ok := n.(ast.NodeList); ok {
			if len(nl) > 0 {
				pf.childLists[&nl[0]] = true
			}
			for _, e := range nl {
				if isPtrNode(e) {
					pf.childTop[e] = true
				}
			}
		} else if isPtrNode(n) {
			pf.childTop[n] = true
		}
	}
	if len(m.nodeOrder) > 1500 {
		panic(discard{"node-budget"})
	}
	return n, cp, err
}

func (m *monitor) wrap(idx int, n *GNode, layer string, p parsley.Parser) parsley.Parser {
	fresh := false
	switch n.Op {
	case "seq", "seqtry", "seqfoa", "many", "many1", "sepby", "sepby1", "sentence":
		fresh = n.Arg != "single"
	case "rune", "urune", "unode", "unode2", "upanic", "op", "int", "float", "str", "char", "bool", "nil", "word", "regexp", "dur":
		fresh = true // a terminal parser builds its node itself
	}
	if layer == "inner" {
		return recP{m: m, label: n.Op, idx: idx, inner: true, fresh: fresh, p: p}
	}
	if n.Memo {
		return recP{m: m, label: "memoize", idx: idx, memo: true, p: p}
	}
	return recP{m: m, label: n.Op, idx: idx, fresh: fresh, p: p}
}

func (s *c07Step) parser(c *c07Case, b *built, m *monitor, nullable []bool) parsley.Parser {
	if s.Kind == "root" {
		return b.Root
	}
	k := b.Slots[s.Node]
	if s.Kind == "pool" {
		return k
	}
	x := terminal.Op(s.Arg)
	var p parsley.Parser
	label := "wrap:" + s.Wrap
	switch s.Wrap {
	case "fwrap-any":
		// a parser.FuncWrapper around the pool parser, extended by an enclosing Any
		fw := &parser.FuncWrapper{F: func(ctx *parsley.Context, lrc data.IntMap, pos parsley.Pos) (parsley.Node, data.IntSet, parsley.Error) {
			return k.Parse(ctx, lrc, pos)
		}}
		p = combinator.Any(combinator.Any(fw, x), combinator.Any(fw, b.Slots[s.Other%len(b.Slots)]))
	case "any-pool":
		// two pool parsers (possibly both memoised and left-recursive: their curtailing sets
		// are merged by the enclosing combinator)
		p = combinator.Any(k, b.Slots[s.Other%len(b.Slots)])
	case "seq-pool":
		p = combinator.SeqOf(combinator.Optional(k), b.Slots[s.Other%len(b.Slots)])
	case "any-x":
		p = combinator.Any(k, x)
	case "any-rev":
		p = combinator.Any(x, k)
	case "choice":
		p = combinator.Choice(k, x)
	case "seq-y":
		p = combinator.SeqOf(k, x)
	case "seq-opt":
		p = combinator.SeqOf(k, combinator.Optional(x))
	case "many":
		if nullable[s.Node] {
			p = combinator.Optional(k)
			label = "wrap:opt"
		} else {
			p = combinator.Many(k)
		}
	case "sepby":
		if nullable[s.Node] {
			p = combinator.Optional(k)
			label = "wrap:opt"
		} else {
			p = combinator.SepBy(k, x)
		}
	case "single":
		p = combinator.Single(k)
	case "ltrim":
		p = text.LeftTrim(k, wsMode(s.Mode))
	case "rtrim":
		p = text.RightTrim(k, wsMode(s.Mode))
		label = "rtrim"
	case "returnsingle":
		p = combinator.SeqOf(k).HandleResult(combinator.ReturnSingle())
	case "sentence":
		p = combinator.Sentence(k)
	case "memo":
		p = combinator.Memoize(k)
	default:
		p = combinator.Optional(k)
		label = "wrap:opt"
	}
	return recP{m: m, label: label, idx: s.Node, p: p}
}

func (*c07Prop) Run(cc Case) (v Verdict) {
	c := cc.(*c07Case)
	v = Verdict{Probes: map[string]int64{}, Faults: map[string]int64{}}
	defer func() {
		if r := recover(); r != nil {
			if d, ok := r.(discard); ok {
				v.Discard = d.why
				v.Violation = false
				return
			}
			if hasRich(c.G) {
				v.Discard = "literal-parser-panic"
				v.Violation = false
				return
			}
			if _, ok := r.(userBoom); ok {
				v.Discard = "user-panic"
				v.Violation = false
				return
			}
			if panicInLibrary() {
				// a panic inside the library is not something this property judges; what the
				// monitor saw up to that point stands
				v.Discard = "library-panic"
				v.Violation = false
				return
			}
			panic(r)
		}
	}()
	sim.SetMapSeed(c.MapSeed, c.MapIdentity)
	if !c.MapIdentity {
		v.Faults["map_order_stream"] = 1
	}
	m := newMonitor()
	b := build(c.G, &buildOpts{Memo: true, Wrap: m.wrap, LibInterp: true})
	an := c.G.analyze()
	ctx := newCtx(c.Input, c.Prefix)
	m.ctx = ctx
	m.text, m.base = bytes.Replace([]byte(c.Input), []byte("\r\n"), []byte("\n"), -1), ctx.Reader().Pos(0)
	first := map[[2]int]string{}
	consumers := map[int]bool{}
	for i := range c.Steps {
		s := &c.Steps[i]
		consumers[s.Consumer] = true
		if s.Kind == "parse" || s.Kind == "eval" {
			ctx.EnableTransformation()
			ctx.EnableStaticCheck()
			// the root parser runs behind a pass-through recorder: the monitor judges the
			// tree BEFORE Transform / StaticCheck walk it (a corrupted tree may be cyclic)
			type stopStep struct{}
			var n parsley.Node
			func() {
				defer func() {
					if r := recover(); r != nil {
						if _, ok := r.(stopStep); !ok {
							panic(r)
						}
					}
				}()
				rec := parser.Func(func(ctx *parsley.Context, lrc data.IntMap, pos parsley.Pos) (parsley.Node, data.IntSet, parsley.Error) {
					rn, cp, err := b.Root.Parse(ctx, lrc, pos)
					m.checkAll()
					if m.viol == nil && cyclicTree(rn) {
						m.viol = &c07Violation{class: "frozen:children", detail: "the tree returned by the root parser contains a node that is its own descendant: children slices of returned nodes were rewritten"}
					}
					if m.viol != nil {
						panic(stopStep{})
					}
					return rn, cp, err
				})
				n, _ = parsley.Parse(ctx, rec)
			}()
			if m.viol != nil {
				break
			}
			m.track(n)
			m.checkAll()
			v.Probes["requests:"+s.Kind]++
			if s.Kind == "eval" && n != nil && m.viol == nil {
				var firstVal string
				for rep := 0; rep < 2 && m.viol == nil; rep++ {
					m.stack = append(m.stack, frame{label: "evaluation of the result (interpreters)", idx: c.G.Root})
					var val string
					func() {
						defer func() {
							if recover() != nil { // an interpreter may panic on shapes it does not expect
								val = "panic"
							}
						}()
						x, err := parsley.EvaluateNode(nil, n)
						val = fmt.Sprintf("%v err=%v", x, err)
						// the value belongs to the caller, who may do with it what it likes:
						// the second evaluation must not see it
						scribbleValue(x)
					}()
					m.checkAll()
					m.stack = m.stack[:len(m.stack)-1]
					if rep == 0 {
						firstVal = val
					} else if val != firstVal && m.viol == nil {
						m.viol = &c07Violation{class: "frozen:value", detail: fmt.Sprintf("the value of the result was %s when first evaluated; after the caller had modified the value it received, a second evaluation of the same node gives %s", clip(firstVal), clip(val))}
					}
				}
			}
			if m.viol != nil {
				break
			}
			continue
		}
		q := s.parser(c, b, m, an.Nullable)
		pos := ctx.Reader().Pos(s.Pos)
		if s.Kind == "root" {
			pos = ctx.Reader().Pos(0)
		}
		n, cp, err := q.Parse(ctx, data.EmptyIntMap, pos)
		m.checkAll()
		v.Probes["requests:"+s.Kind]++
		if nl, ok := n.(ast.NodeList); ok && len(nl) >= 3 {
			v.Probes["requests_returning_3+_alternatives"]++
		}
		if m.viol != nil {
			break
		}
		// top-level re-request of a memoised pool parser: same answer as the first time
		if s.Kind == "pool" && c.G.Nodes[s.Node].Memo && m.known == 0 {
			r, over := renderNode(n, 1<<14)
			if !over {
				ans := r + " cp=" + renderCP(cp) + " err=" + renderErr(err)
				k := [2]int{s.Node, s.Pos}
				if f, ok := first[k]; !ok {
					first[k] = ans
				} else {
					v.Probes["top_level_rerequests"]++
					if f != ans {
						m.viol = &c07Violation{class: "rerequest", detail: fmt.Sprintf("memoised parser (grammar node %d) asked again at position %d by a consumer at top level answered differently:\n  first: %s\n  later: %s", s.Node, s.Pos, clip(f), clip(ans))}
					}
				}
			}
		}
		if m.viol != nil {
			break
		}
	}
	v.Steps = int64(m.calls)
	v.Probes["cache_hits"] = int64(m.outerMemo - m.innerRuns)
	v.Probes["tracked_node_objects"] = int64(len(m.nodeOrder))
	v.Probes["tracked_result_lists"] = int64(len(m.listOrder))
	v.Probes["consumers"] = int64(len(consumers))
	v.Probes["known_rtrim_mutations"] = int64(m.known)
	bj, _ := json.Marshal(struct {
		G *Grammar
		I string
		S []c07Step
	}{c.G, c.Input, c.Steps})
	v.Fingerprint = fnv(0, string(bj))
	v.Nontrivial = m.outerMemo-m.innerRuns >= 1 && len(m.nodeOrder) >= 3
	if m.known > 0 {
		v.Known = c07Known
	}
	if m.viol != nil {
		v.Violation, v.Class, v.Detail = true, m.viol.class, m.viol.detail
		v.Known = ""
		return v
	}
	if m.known > 0 {
		// attributed mutations only: the witness replay reports them, exploration counts them
		v.Violation, v.Class = true, "frozen:readerPos"
		v.Detail = fmt.Sprintf("%d in-place readerPos rewrites by RightTrim (open finding)", m.known)
	}
	return v
}

func (*c07Prop) Shrink(cc Case) []Case {
	c := cc.(*c07Case)
	var out []Case
	clone := func() *c07Case {
		b, _ := json.Marshal(c)
		k := &c07Case{}
		json.Unmarshal(b, k)
		return k
	}
	n := len(c.Steps)
	for chunk := n / 2; chunk >= 1; chunk /= 2 {
		for start := 0; start+chunk <= n; start += chunk {
			k := clone()
			k.Steps = append(append([]c07Step(nil), c.Steps[:start]...), c.Steps[start+chunk:]...)
			if len(k.Steps) > 0 {
				out = append(out, k)
			}
		}
		if chunk == 1 {
			break
		}
	}
	for _, sg := range shrinkGrammarOpt(c.G, true) {
		if len(sg.Nodes) != len(c.G.Nodes) {
			// node indexes change: remap steps conservatively to node 0.. by clamping
			k := clone()
			k.G = sg
			for i := range k.Steps {
				if k.Steps[i].Node >= len(sg.Nodes) {
					k.Steps[i].Node = sg.Root
				}
			}
			out = append(out, k)
		} else {
			k := clone()
			k.G = sg
			out = append(out, k)
		}
	}
	for i := 0; i < len(c.Input); i++ {
		k := clone()
		k.Input = c.Input[:i] + c.Input[i+1:]
		for j := range k.Steps {
			if k.Steps[j].Pos > len(k.Input) {
				k.Steps[j].Pos = len(k.Input)
			}
		}
		out = append(out, k)
	}
	for i, s := range c.Steps {
		if s.Kind == "wrap" {
			k := clone()
			k.Steps[i].Kind = "pool"
			out = append(out, k)
		}
		if s.Pos > 0 {
			k := clone()
			k.Steps[i].Pos = 0
			out = append(out, k)
		}
		if len(s.Arg) > 1 {
			k := clone()
			k.Steps[i].Arg = s.Arg[:1]
			out = append(out, k)
		}
	}
	if !c.MapIdentity {
		k := clone()
		k.MapIdentity = true
		out = append(out, k)
	}
	if c.Prefix > 0 {
		k := clone()
		k.Prefix = 0
		out = append(out, k)
	}
	return out
}

// scribbleValue overwrites every aggregate of an evaluated value in place (reverses slices,
// clears maps): what a caller owning the value may do.
func scribbleValue(x interface{}) {
	switch v := x.(type) {
	case []interface{}:
		for _, e := range v {
			scribbleValue(e)
		}
		for i, j := 0, len(v)-1; i < j; i, j = i+1, j-1 {
			v[i], v[j] = v[j], v[i]
		}
		if len(v) == 1 {
			v[0] = "scribbled"
		}
	case map[string]interface{}:
		for k, e := range v {
			scribbleValue(e)
			delete(v, k)
		}
		v["scribbled"] = true
	}
}

// cyclicTree: some pointer node is reachable from itself through Children() / list elements.
func cyclicTree(root parsley.Node) bool {
	onPath := map[interface{}]bool{}
	budget := 200000
	var walk func(n parsley.Node) bool
	walk = func(n parsley.Node) bool {
		budget--
		if n == nil || budget < 0 {
			return false
		}
		switch x := n.(type) {
		case ast.NodeList:
			for _, e := range x {
				if walk(e) {
					return true
				}
			}
			return false
		case parsley.NonTerminalNode:
			if !isPtrNode(n) {
				return false
			}
			if onPath[n] {
				return true
			}
			onPath[n] = true
			for _, k := range x.Children() {
				if walk(k) {
					return true
				}
			}
			delete(onPath, n)
		}
		return false
	}
	return walk(root)
}
