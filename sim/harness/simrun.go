package main

import (
	"fmt"
	"sync"

	sim "github.com/opsidian/parsley/zzsimrt"
)

// SchedSpec is the scheduling part of a case. In search mode Policy/Seed/Args decide the
// interleaving; after the run Explicit holds the switch list that was actually taken,
// and from then on (replay, minimisation) only Explicit is used - no PRNG.
type SchedSpec struct {
	Policy    int          `json:"policy"`
	Seed      uint64       `json:"seed"`
	Args      [4]int64     `json:"args"`
	StepCap   int64        `json:"step_cap"`
	AbortTask int64        `json:"abort_task,omitempty"`
	AbortAt   int64        `json:"abort_at,omitempty"`
	Explicit  []sim.Switch `json:"explicit,omitempty"`
	HasExpl   bool         `json:"has_explicit,omitempty"`
}

var policyNames = []string{"random", "sticky", "pct", "preempt", "roundrobin", "stall", "replay"}

// genSched draws a scheduling policy (swarm style: one per run).
func genSched(r *Rand, tasks int, estSteps int64) *SchedSpec {
	s := &SchedSpec{Policy: r.Intn(sim.NumSearchPolicies), Seed: r.U64(), StepCap: 400000}
	switch s.Policy {
	case sim.PolSticky:
		s.Args[0] = int64([]int{2, 4, 16, 64}[r.Intn(4)])
	case sim.PolPCT:
		s.Args[0] = int64(r.Range(1, 3))
		s.Args[1] = estSteps
	case sim.PolPreempt:
		s.Args[0] = int64(r.Range(0, 3))
		s.Args[1] = estSteps / 3
	case sim.PolRR:
		s.Args[0] = int64([]int{1, 2, 5, 17, 100}[r.Intn(5)])
	case sim.PolStall:
		s.Args[0] = int64(r.Range(1, tasks))
	}
	return s
}

type taskEnd struct {
	Aborted  int64       // sim.Abort.Why, 0 if the task ran to completion
	Panic    interface{} // a Go panic raised by library or callback code (an observation)
	PanicStr string
}

type runInfo struct {
	Ends        []taskEnd // index 1..n
	Steps       int64
	OverBudget  bool
	Deadlock    bool
	AbortsFired int64
	Spins       int64
	TraceHash   uint64
	SchedHash   uint64
	Switches    int
	Unreplayable bool
}

// runTasks executes fn(1..n) as simulated tasks under the schedule s.
func runTasks(n int, s *SchedSpec, fn func(id int64)) runInfo {
	ends := make([]taskEnd, n+1)
	var wg sync.WaitGroup
	sim.AbandonHook = func(id int64, why int64) {
		// the task is parked for good by the simulator (see zzsimrt.stop): it never returns
		ends[id].Aborted = why
		wg.Done()
	}
	for i := 1; i <= n; i++ {
		wg.Add(1)
		go func(id int64) {
			defer wg.Done()
			defer func() {
				if r := recover(); r != nil {
					if a, ok := r.(sim.Abort); ok {
						ends[id].Aborted = a.Why
					} else {
						ends[id].Panic = r
						ends[id].PanicStr = fmt.Sprint(r)
					}
				}
				sim.Finish(id)
			}()
			sim.WaitTurn(id)
			fn(id)
		}(int64(i))
	}
	cfg := &sim.Config{Tasks: n, Seed: s.Seed, Policy: s.Policy, Args: s.Args, StepCap: s.StepCap, AbortTask: s.AbortTask, AbortAt: s.AbortAt}
	if s.HasExpl {
		cfg.Policy = sim.PolReplay
		cfg.Replay = s.Explicit
	}
	before := sim.AbortsFired
	spins := sim.SpinTotal
	sim.Start(cfg)
	wg.Wait()
	info := runInfo{Ends: ends, Steps: sim.Steps, OverBudget: sim.OverBudget != 0, Deadlock: sim.Deadlock != 0,
		AbortsFired: sim.AbortsFired - before, Spins: sim.SpinTotal - spins, TraceHash: sim.TraceHash, SchedHash: sim.SchedHash, Switches: int(sim.SwLen)}
	if !s.HasExpl {
		if sim.SwOverflow != 0 {
			info.Unreplayable = true
		} else {
			s.Explicit = sim.Schedule()
			s.HasExpl = true
		}
	}
	return info
}

// shrinkSched proposes simpler schedules: fewer context switches (tasks run in longer
// blocks), no abort.
func shrinkSched(s *SchedSpec) []*SchedSpec {
	if s == nil || !s.HasExpl {
		return nil
	}
	var out []*SchedSpec
	n := len(s.Explicit)
	cp := func() *SchedSpec { c := *s; c.Explicit = append([]sim.Switch(nil), s.Explicit...); return &c }
	if n > 1 {
		// drop halves, quarters, then single switches
		for chunk := n / 2; chunk >= 1; chunk /= 2 {
			for start := 0; start+chunk <= n && len(out) < 64; start += chunk {
				c := cp()
				c.Explicit = append(append([]sim.Switch(nil), s.Explicit[:start]...), s.Explicit[start+chunk:]...)
				out = append(out, c)
			}
			if chunk == 1 {
				break
			}
		}
	} else if n == 1 {
		c := cp()
		c.Explicit = nil
		out = append(out, c)
	}
	if s.AbortTask != 0 {
		c := cp()
		c.AbortTask, c.AbortAt = 0, 0
		out = append(out, c)
		if s.AbortAt > 1 {
			c2 := cp()
			c2.AbortAt = s.AbortAt / 2
			out = append(out, c2)
		}
	}
	return out
}
