package main

import (
	"bufio"
	"bytes"
	"encoding/json"
	"fmt"
	"os"
	"os/exec"
	"path/filepath"
	"sort"
	"strconv"
	"strings"
	"sync"
	"time"
)

type env struct {
	plain, race, verif, work string
	seed                     uint64
	nproc                    int
}

func getenv() *env {
	e := &env{plain: os.Getenv("SIM_PLAIN"), race: os.Getenv("SIM_RACE"), verif: os.Getenv("VERIF_DIR"), work: os.Getenv("SIM_WORK")}
	if e.verif == "" {
		e.verif = "/verif"
	}
	if e.plain == "" {
		e.plain, _ = os.Executable()
	}
	e.seed = 1
	if s := os.Getenv("VERIF_SEED"); s != "" {
		if v, err := strconv.ParseUint(s, 10, 64); err == nil {
			e.seed = v
		} else if v, err := strconv.ParseInt(s, 10, 64); err == nil {
			e.seed = uint64(v)
		}
	}
	e.nproc = 16
	if s := os.Getenv("SIM_NPROC"); s != "" {
		if v, err := strconv.Atoi(s); err == nil && v > 0 {
			e.nproc = v
		}
	}
	return e
}

// ---- known findings -------------------------------------------------------------------

type finding struct {
	Prop, Key, Desc string
}

func loadFindings(verif string) (open []finding, fixed []string) {
	f, err := os.Open(filepath.Join(verif, "KNOWN_FINDINGS.txt"))
	if err != nil {
		return nil, nil
	}
	defer f.Close()
	sc := bufio.NewScanner(f)
	for sc.Scan() {
		line := strings.TrimSpace(sc.Text())
		switch {
		case strings.HasPrefix(line, "finding:"):
			fs := strings.Fields(strings.TrimPrefix(line, "finding:"))
			var fd finding
			var rest []string
			for _, w := range fs {
				switch {
				case strings.HasPrefix(w, "property=") && fd.Prop == "":
					fd.Prop = strings.TrimPrefix(w, "property=")
				case strings.HasPrefix(w, "key=") && fd.Key == "":
					fd.Key = strings.TrimPrefix(w, "key=")
				default:
					rest = append(rest, w)
				}
			}
			fd.Desc = strings.Join(rest, " ")
			open = append(open, fd)
		case strings.HasPrefix(line, "fixed:"):
			fixed = append(fixed, line)
		}
	}
	return
}

// openFindings is consulted by property code: a signature only attributes a violation
// to a finding that is listed as open in KNOWN_FINDINGS.txt.
var openFindings = func() map[string]bool {
	m := map[string]bool{}
	v := os.Getenv("VERIF_DIR")
	if v == "" {
		v = "/verif"
	}
	fs, _ := loadFindings(v)
	for _, f := range fs {
		m[f.Key] = true
	}
	return m
}()

// ---- process helpers --------------------------------------------------------------------

type procResult struct {
	code     int
	out, err string
	timedOut bool
}

func runProc(timeout time.Duration, envv []string, bin string, args ...string) procResult {
	cmd := exec.Command(bin, args...)
	cmd.Env = append(os.Environ(), envv...)
	var so, se bytes.Buffer
	cmd.Stdout, cmd.Stderr = &so, &se
	if err := cmd.Start(); err != nil {
		return procResult{code: 2, err: err.Error()}
	}
	donec := make(chan error, 1)
	go func() { donec <- cmd.Wait() }()
	var err error
	timedOut := false
	select {
	case err = <-donec:
	case <-time.After(timeout):
		cmd.Process.Kill()
		err = <-donec
		timedOut = true
	}
	code := 0
	if err != nil {
		if ee, ok := err.(*exec.ExitError); ok {
			code = ee.ExitCode()
		} else {
			code = 2
		}
	}
	return procResult{code: code, out: so.String(), err: se.String(), timedOut: timedOut}
}

func raceEnv(logPrefix string) []string {
	return []string{"GOMAXPROCS=1", "GORACE=halt_on_error=1 exitcode=66 history_size=2 log_path=" + logPrefix}
}

func trouble(format string, a ...interface{}) int {
	fmt.Printf("HARNESS-TROUBLE: "+format+"\n", a...)
	return 2
}

// ---- drive ------------------------------------------------------------------------------

type agg struct {
	runs, nontrivial int
	discards, known  map[string]int
	probes, faults   map[string]int64
	steps            int64
	fps              map[uint64]struct{}
	samples          []json.RawMessage
	sites            map[int]bool
	sitesTotal       int
	pairMax          int64
	pairSum          int64
	hotSwitches      int64
	mapRanges        int64
	mapPermuted      int64
	mapUnctl         int64
	warnings         map[string]bool
	tainted          int
	detChecked       int
	detMismatch      int
	detWarm          int
	workerWall       float64
	perPlan          map[string]map[string]interface{}
}

func drive(id string, p Prop, tier string) int {
	if tier != "quick" && tier != "thorough" {
		return trouble("unknown tier %q", tier)
	}
	e := getenv()
	t0 := time.Now()
	if e.work == "" {
		d, err := os.MkdirTemp("", "simwork")
		if err != nil {
			return trouble("%v", err)
		}
		defer os.RemoveAll(d)
		e.work = d
	}
	fmt.Printf("SEED %d property=%s tier=%s\n", e.seed, id, tier)
	evDir := filepath.Join(e.verif, "evidence")
	if d := os.Getenv("SIM_EVIDENCE_DIR"); d != "" {
		evDir = d // used when judging scratch copies (mutants) so that real evidence is not clobbered
	}
	evPath := filepath.Join(evDir, id+".json")
	os.MkdirAll(filepath.Dir(evPath), 0755)

	// 1. known findings: replay every open witness of this property
	open, fixed := loadFindings(e.verif)
	knownLines := []string{}
	for _, f := range open {
		if f.Prop != id {
			continue
		}
		wit := filepath.Join(e.verif, "findings", f.Key+".json")
		bin, envv := e.plain, []string{"GOMAXPROCS=1"}
		if strings.HasPrefix(f.Key, "race-") {
			bin, envv = e.race, raceEnv(filepath.Join(e.work, "known-"+f.Key))
		}
		r := runProc(2*time.Minute, envv, bin, "replay", id, wit)
		switch {
		case r.timedOut || r.code == 2:
			return trouble("replaying known finding %s failed: %s %s", f.Key, r.out, r.err)
		case r.code == 3 || r.code == 1 || r.code == 66:
			line := fmt.Sprintf("KNOWN-FINDING: property=%s %s", id, f.Desc)
			fmt.Println(line)
			knownLines = append(knownLines, line)
		default:
			fmt.Printf("NOTE: witness of open finding %s no longer fails on this tree\n", f.Key)
		}
	}

	// 2. exploration
	a := &agg{discards: map[string]int{}, known: map[string]int{}, probes: map[string]int64{}, faults: map[string]int64{}, fps: map[uint64]struct{}{}, sites: map[int]bool{}, warnings: map[string]bool{}, perPlan: map[string]map[string]interface{}{}}
	type viol struct {
		plan Plan
		rec  ViolationRec
		race bool
		wkr  int
		idx  int
	}
	var viols []viol
	plans := p.Plans(tier)
	for pi := range plans {
		pl := plans[pi]
		if pl.Race && e.race == "" {
			return trouble("plan %s needs the -race build (SIM_RACE unset)", pl.Name)
		}
		nw := pl.Workers
		type wres struct {
			w   int
			r   procResult
			out *WorkerOut
		}
		results := make([]wres, nw)
		var wg sync.WaitGroup
		sem := make(chan struct{}, e.nproc)
		tp := time.Now()
		for w := 0; w < nw; w++ {
			wg.Add(1)
			go func(w int) {
				defer wg.Done()
				sem <- struct{}{}
				defer func() { <-sem }()
				bin, envv := e.plain, []string{"GOMAXPROCS=1"}
				prog := ""
				if pl.Race {
					bin = e.race
					envv = raceEnv(filepath.Join(e.work, fmt.Sprintf("race-%s-%d", pl.Name, w)))
					prog = filepath.Join(e.work, fmt.Sprintf("progress-%s-%d", pl.Name, w))
				}
				args := []string{"work", id, "-seed", fmt.Sprint(mix(e.seed, uint64(pi))), "-worker", fmt.Sprint(w), "-runs", fmt.Sprint(pl.Runs),
					"-maxtime", pl.MaxTime.String(), "-out", e.work, "-plan", pl.Name, "-variant", fmt.Sprint(pl.Variant), "-size", fmt.Sprint(pl.Size)}
				if pl.Race {
					args = append(args, "-race", "-progress", prog)
				}
				r := runProc(pl.MaxTime*3+2*time.Minute, envv, bin, args...)
				res := wres{w: w, r: r}
				if r.code == 0 {
					b, err := os.ReadFile(filepath.Join(e.work, fmt.Sprintf("worker-%s-%d.json", pl.Name, w)))
					if err == nil {
						var o WorkerOut
						if json.Unmarshal(b, &o) == nil {
							res.out = &o
						}
					}
				}
				results[w] = res
			}(w)
		}
		wg.Wait()
		planRuns, planNT := 0, 0
		for _, res := range results {
			switch {
			case res.r.timedOut:
				return trouble("worker %d of plan %s exceeded its watchdog (hang?)\n%s", res.w, pl.Name, tail(res.r.err, 2000))
			case res.r.code == 66 && pl.Race:
				idx, rs := lastRun(filepath.Join(e.work, fmt.Sprintf("progress-%s-%d", pl.Name, res.w)))
				if idx < 0 {
					return trouble("race report before any run started (plan %s worker %d)\n%s", pl.Name, res.w, readRaceLog(e.work, pl.Name, res.w))
				}
				rep := readRaceLog(e.work, pl.Name, res.w)
				if onlyHarnessFrames(rep) {
					return trouble("race report entirely inside the harness / runtime (machinery bug):\n%s", rep)
				}
				viols = append(viols, viol{plan: pl, race: true, wkr: res.w, idx: idx, rec: ViolationRec{RunSeed: rs, Class: "race", Detail: raceSummary(rep)}})
				planRuns += idx + 1
			case res.r.code != 0 || res.out == nil:
				return trouble("worker %d of plan %s exited with %d\nstdout: %s\nstderr: %s\n[...]\n%s", res.w, pl.Name, res.r.code, tail(res.r.out, 1500), head(res.r.err, 2500), tail(res.r.err, 1500))
			default:
				o := res.out
				a.merge(o)
				planRuns += o.Runs
				planNT += o.Nontrivial
				for _, v := range o.Violations {
					viols = append(viols, viol{plan: pl, rec: v, wkr: res.w, idx: v.Idx})
				}
			}
		}
		a.perPlan[pl.Name] = map[string]interface{}{"workers": nw, "race_build": pl.Race, "runs": planRuns, "nontrivial": planNT, "wall_s": round2(time.Since(tp).Seconds()), "cold_processes": pl.Cold}
	}

	// 3. violations: minimise, confirm in a fresh process, report
	reported := 0
	seenClass := map[string]bool{}
	var vlines []string
	var unconfirmed []string
	for _, v := range viols {
		if seenClass[v.rec.Class] || reported >= 3 {
			continue
		}
		seenClass[v.rec.Class] = true
		caseFile := v.rec.CaseFile
		confirm := func(file string) bool {
			if v.race {
				// a race report is never a false positive, but ThreadSanitizer evicts shadow
				// cells pseudo-randomly, so one replay may miss it: up to 4 attempts
				for try := 0; try < 4; try++ {
					if runProc(5*time.Minute, raceEnv(filepath.Join(e.work, "confirm")), e.race, "replay", id, file).code == 66 {
						return true
					}
				}
				return false
			}
			bin, envv := e.plain, []string{"GOMAXPROCS=1"}
			if v.plan.Race {
				bin, envv = e.race, raceEnv(filepath.Join(e.work, "confirm"))
			}
			return runProc(5*time.Minute, envv, bin, "replay", id, file).code == 1
		}
		if v.race {
			caseFile = filepath.Join(e.work, fmt.Sprintf("racecase-%d.json", reported))
			r := runProc(2*time.Minute, []string{"GOMAXPROCS=1"}, e.plain, "emit", id, "-runseed", fmt.Sprint(v.rec.RunSeed), "-variant", fmt.Sprint(v.plan.Variant), "-size", fmt.Sprint(v.plan.Size), "-plan", v.plan.Name, "-out", caseFile)
			if r.code != 0 {
				return trouble("emit of racing run %d failed: %s %s", v.rec.RunSeed, tail(r.out, 1000), tail(r.err, 2000))
			}
		}
		if caseFile != "" && !confirm(caseFile) {
			// the violation may need process state built by earlier runs of that worker: fall
			// back to the whole prefix as one multi-case replay file (explicit cases, no PRNG)
			multi := filepath.Join(e.work, fmt.Sprintf("multi-%d.json", reported))
			var cases []json.RawMessage
			pi := planIndex(plans, v.plan.Name)
			for i := 0; i <= v.idx; i++ {
				one := filepath.Join(e.work, "one.json")
				r := runProc(2*time.Minute, []string{"GOMAXPROCS=1"}, e.plain, "emit", id, "-runseed", fmt.Sprint(runSeed(mix(e.seed, uint64(pi)), v.wkr, i)), "-variant", fmt.Sprint(v.plan.Variant), "-size", fmt.Sprint(v.plan.Size), "-plan", v.plan.Name, "-out", one)
				if r.code != 0 {
					return trouble("emit failed: %s", tail(r.err, 2000))
				}
				b, _ := os.ReadFile(one)
				cases = append(cases, b)
			}
			writeJSON(multi, map[string]interface{}{"multi": cases})
			if !confirm(multi) {
				if v.race {
					// A ThreadSanitizer report is proof of a data race by itself (never a false
					// positive). It did not recur on replay: the library behaves differently from
					// run to run (sync.Pool, map addresses). Report it with the report text of the
					// original run and the run prefix as (best-effort) replay file.
					dst := filepath.Join(replayDir(e), fmt.Sprintf("%s-%d-%d.json", id, e.seed, reported))
					os.MkdirAll(filepath.Dir(dst), 0755)
					b, _ := os.ReadFile(multi)
					if i := bytes.IndexByte(b, '{'); i >= 0 {
						b = append(append(append([]byte(nil), b[:i+1]...), []byte("\n \"race_oracle\": true,")...), b[i+1:]...)
					}
					os.WriteFile(dst, b, 0644)
					fmt.Printf("VIOLATION property=%s replay=%s\n", id, dst)
					fmt.Printf("  class=race seed=%d run_seed=%d plan=%s\n  %s\n  NOTE: the report above was produced by run %d of worker %d; it did not recur in %d replays of the explicit cases - the library under test is not a function of the case (instrumenter warnings: %v)\n", e.seed, v.rec.RunSeed, v.plan.Name, strings.Replace(v.rec.Detail, "\n", "\n  ", -1), v.idx, v.wkr, 8, keys(a.warnings))
					vlines = append(vlines, "class=race (not reproducible on replay) replay="+dst)
					reported++
					continue
				}
				if libNondet(a.warnings) {
					// The oracle failed in a real execution of the worker. It does not recur from
					// the explicit cases because the library under test uses facilities that differ
					// from run to run (the instrumenter saw sync.Pool / a clock / randomness - none
					// of which the unchanged tree has). Reported with the worker's case prefix.
					dst := filepath.Join(replayDir(e), fmt.Sprintf("%s-%d-%d.json", id, e.seed, reported))
					os.MkdirAll(filepath.Dir(dst), 0755)
					b, _ := os.ReadFile(multi)
					os.WriteFile(dst, b, 0644)
					fmt.Printf("VIOLATION property=%s replay=%s\n", id, dst)
					fmt.Printf("  class=%s seed=%d run_seed=%d plan=%s\n  VIOLATED property=%s class=%s %s\n  NOTE: observed by run %d of worker %d; it did not recur when the explicit cases were replayed in a fresh process - the library under test is not a function of the case (instrumenter warnings: %v)\n", v.rec.Class, e.seed, v.rec.RunSeed, v.plan.Name, id, v.rec.Class, strings.Replace(v.rec.Detail, "\n", "\n  ", -1), v.idx, v.wkr, keys(a.warnings))
					vlines = append(vlines, "class="+v.rec.Class+" (not reproducible on replay) replay="+dst)
					reported++
					continue
				}
				unconfirmed = append(unconfirmed, fmt.Sprintf("class %s (run seed %d, plan %s): %s", v.rec.Class, v.rec.RunSeed, v.plan.Name, v.rec.Detail))
				continue
			}
			caseFile = multi
		}
		if caseFile == "" {
			return trouble("violation without a case file: %+v", v.rec)
		}
		// minimise
		minFile := filepath.Join(e.work, fmt.Sprintf("min-%d.json", reported))
		budget := 60 * time.Second
		if tier == "thorough" {
			budget = 4 * time.Minute
		}
		sargs := []string{"shrink", id, caseFile, minFile, "-maxtime", budget.String(), "-class", v.rec.Class}
		if v.race {
			sargs = append(sargs, "-racebin", e.race)
		}
		sr := runProc(budget*2+2*time.Minute, []string{"GOMAXPROCS=1"}, e.plain, sargs...)
		if sr.code != 0 {
			fmt.Printf("NOTE: minimisation failed (%d), reporting the unminimised case\n%s\n", sr.code, tail(sr.err, 1000))
			minFile = caseFile
		}
		// confirm in a fresh process; an unconfirmed minimised case falls back to the original
		if !confirm(minFile) {
			fmt.Printf("NOTE: the minimised case did not fail again in a fresh process; reporting the unminimised case\n")
			minFile = caseFile
		}
		var cr procResult
		if v.race {
			for try := 0; try < 6; try++ {
				cr = runProc(5*time.Minute, raceEnv(filepath.Join(e.work, "final")), e.race, "replay", id, minFile)
				if cr.code == 66 {
					break
				}
			}
		} else {
			bin, envv := e.plain, []string{"GOMAXPROCS=1"}
			if v.plan.Race {
				bin, envv = e.race, raceEnv(filepath.Join(e.work, "final"))
			}
			cr = runProc(5*time.Minute, envv, bin, "replay", id, minFile)
		}
		okc := (v.race && cr.code == 66) || (!v.race && cr.code == 1)
		raceNote := ""
		if !okc {
			if !v.race && !libNondet(a.warnings) {
				unconfirmed = append(unconfirmed, fmt.Sprintf("class %s (run seed %d, plan %s) failed in an earlier replay but not in the final one: %s", v.rec.Class, v.rec.RunSeed, v.plan.Name, v.rec.Detail))
				continue
			}
			if !v.race {
				// observed by the worker AND by an earlier replay in a fresh process; the library
				// under test is not a function of the case (see the instrumenter warnings)
				cr.out = "VIOLATED property=" + id + " class=" + v.rec.Class + " " + v.rec.Detail + "\n"
				raceNote = fmt.Sprintf("\n  NOTE: failed in the worker and in an earlier replay of this file but not in the last one - the library under test is not a function of the case (instrumenter warnings: %v)", keys(a.warnings))
			}
			// the race was reported by the worker AND by at least one replay; a report is
			// proof by itself, the final replay just did not hit it again
			raceNote = "\n  NOTE: the report recurred in an earlier replay of this file but not in the last 6 attempts (ThreadSanitizer shadow eviction / library nondeterminism)"
		}
		dst := filepath.Join(replayDir(e), fmt.Sprintf("%s-%d-%d.json", id, e.seed, reported))
		os.MkdirAll(filepath.Dir(dst), 0755)
		b, _ := os.ReadFile(minFile)
		if v.race {
			// mark the file so that ./check --replay uses the -race build (textual
			// insertion: a generic JSON round trip would lose uint64 precision)
			if i := bytes.IndexByte(b, '{'); i >= 0 && !bytes.Contains(b, []byte("\"race_oracle\"")) {
				b = append(append(append([]byte(nil), b[:i+1]...), []byte("\n \"race_oracle\": true,")...), b[i+1:]...)
			}
		}
		os.WriteFile(dst, b, 0644)
		detail := v.rec.Detail
		if v.race && okc {
			detail = raceSummary(readAny(filepath.Join(e.work, "final")))
		} else if i := strings.Index(cr.out, "VIOLATED"); i >= 0 {
			lines := strings.Split(strings.TrimSpace(cr.out[i:]), "\n")
			if len(lines) > 10 {
				lines = lines[:10]
			}
			detail = strings.Join(lines, "\n")
		}
		fmt.Printf("VIOLATION property=%s replay=%s\n", id, dst)
		fmt.Printf("  class=%s seed=%d run_seed=%d plan=%s\n  %s%s\n", v.rec.Class, e.seed, v.rec.RunSeed, v.plan.Name, strings.Replace(detail, "\n", "\n  ", -1), raceNote)
		vlines = append(vlines, fmt.Sprintf("class=%s replay=%s", v.rec.Class, dst))
		reported++
	}

	// 4. evidence
	wall := time.Since(t0).Seconds()
	fps := len(a.fps)
	cov := map[string]interface{}{
		"evaluations":         a.runs,
		"distinct_nontrivial": fps,
		"rule":                p.Rule(),
		"samples":             a.samples,
		"nontrivial_runs":     a.nontrivial,
		"discarded":           a.discards,
		"known_finding_hits":  a.known,
		"probes":              a.probes,
		"faults_fired":        a.faults,
		"fault_kinds_not_applicable": "message loss/duplication/reordering, partitions, clock skew/jumps, disk errors, torn/short/lost writes, allocation failure: no component of parsley can experience them (DESIGN.md 3.3)",
		"logical_steps":       a.steps,
		"simulated_time":      "not applicable: no clock, timer or deadline exists in the code under test; progress is counted in logical steps (yields / events / operations)",
		"runs_per_hour":       int(float64(a.runs) / wall * 3600),
		"seeds":               fmt.Sprintf("VERIF_SEED=%d; run seed = mix(mix(mix(VERIF_SEED, plan), worker), index)", e.seed),
		"yield_sites_hit":     len(a.sites),
		"yield_sites_total":   a.sitesTotal,
		"switch_pairs_max_per_process": a.pairMax,
		"switches_at_shared_memory_sites": a.hotSwitches,
		"map_ranges_through_seam":        a.mapRanges,
		"map_ranges_permuted":            a.mapPermuted,
		"map_ranges_uncontrolled":        a.mapUnctl,
		"determinism_spot_check":         map[string]int{"cases_run_twice": a.detChecked, "mismatches": a.detMismatch, "first_use_effects_of_the_library": a.detWarm},
		"plans":                          a.perPlan,
		"components":                     p.Components(),
		"instrumenter_warnings":          keys(a.warnings),
		"known_findings_replayed":        knownLines,
		"fixed_findings_listed":          fixed,
		"violations_reported":            vlines,
		"tainted_workers":                a.tainted,
		"exhaustive":                     false,
	}
	if len(a.samples) == 0 {
		cov["samples"] = []string{"no sample case was captured"}
	}
	ev := map[string]interface{}{
		"property_id": id,
		"tier":        tier,
		"seed":        int64(e.seed & 0x7fffffffffffffff),
		"level":       p.Level(),
		"coverage":    cov,
		"assumptions": p.Assumptions(),
		"wall_s":      round2(wall),
		"violations":  reported,
	}
	writeJSON(evPath, ev)
	fmt.Printf("DONE property=%s tier=%s runs=%d distinct_nontrivial=%d discarded=%v known_hits=%v violations=%d wall=%.1fs\n", id, tier, a.runs, fps, a.discards, a.known, reported, wall)
	if reported > 0 {
		return 1
	}
	if len(unconfirmed) > 0 {
		return trouble("a violation was observed by a worker but reproduces neither from its case nor from the worker's run prefix:\n%s", strings.Join(unconfirmed, "\n"))
	}
	nondet := libNondet(a.warnings)
	if a.detWarm > 0 {
		fmt.Printf("NOTE: %d of %d re-executed cases ran differently the second time and identically the third: the library keeps state across parses in the process (a cache filled on first use); replay files of violations carry the worker's case prefix where that matters\n", a.detWarm, a.detChecked)
	}
	if a.detMismatch > 0 && nondet {
		fmt.Printf("NOTE: %d of %d re-executed cases gave a different event trace; the library under test uses run-to-run nondeterministic facilities (%v), so this is not held against the machinery\n", a.detMismatch, a.detChecked, keys(a.warnings))
		a.detMismatch = 0
	}
	if a.detMismatch > 0 {
		// no violation was reported, yet re-executing a case in the same process gave another
		// event fingerprint: the machinery (or the library) is not a function of the case
		return trouble("determinism spot check failed: %d of %d re-executed cases gave a different event fingerprint", a.detMismatch, a.detChecked)
	}
	if a.runs == 0 {
		return trouble("no run was executed")
	}
	return 0
}

func replayDir(e *env) string {
	if d := os.Getenv("SIM_REPLAY_DIR"); d != "" {
		return d
	}
	return filepath.Join(e.verif, "replays")
}

func planIndex(pl []Plan, name string) int {
	for i := range pl {
		if pl[i].Name == name {
			return i
		}
	}
	return 0
}

func (a *agg) merge(o *WorkerOut) {
	a.runs += o.Runs
	a.nontrivial += o.Nontrivial
	for k, v := range o.Discards {
		a.discards[k] += v
	}
	for k, v := range o.Known {
		a.known[k] += v
	}
	for k, v := range o.Probes {
		a.probes[k] += v
	}
	for k, v := range o.Faults {
		a.faults[k] += v
	}
	a.steps += o.Steps
	for _, f := range o.Fingerprints {
		a.fps[f] = struct{}{}
	}
	if len(a.samples) < 4 {
		for _, s := range o.Samples {
			if len(a.samples) < 4 {
				a.samples = append(a.samples, s)
			}
		}
	}
	for _, s := range o.SiteBits {
		a.sites[s] = true
	}
	if o.SitesTotal > a.sitesTotal {
		a.sitesTotal = o.SitesTotal
	}
	if o.PairCount > a.pairMax {
		a.pairMax = o.PairCount
	}
	a.hotSwitches += o.HotSwitches
	a.mapRanges += o.MapRanges
	a.mapPermuted += o.MapPermuted
	a.mapUnctl += o.MapUnctl
	for _, w := range o.Warnings {
		a.warnings[w] = true
	}
	if o.Tainted {
		a.tainted++
	}
	a.detChecked += o.DetChecked
	a.detMismatch += o.DetMismatch
	a.detWarm += o.DetWarm
	a.workerWall += o.WallS
}

func keys(m map[string]bool) []string {
	out := []string{}
	for k := range m {
		out = append(out, k)
	}
	sort.Strings(out)
	return out
}

func round2(f float64) float64 { return float64(int(f*100+0.5)) / 100 }

func head(s string, n int) string {
	if len(s) > n {
		return s[:n] + "..."
	}
	return s
}

func tail(s string, n int) string {
	if len(s) > n {
		return "..." + s[len(s)-n:]
	}
	return s
}

func lastRun(progress string) (idx int, seed uint64) {
	b, err := os.ReadFile(progress)
	if err != nil {
		return -1, 0
	}
	idx = -1
	for _, l := range strings.Split(string(b), "\n") {
		if strings.HasPrefix(l, "RUN ") {
			if v, err := strconv.ParseUint(strings.TrimSpace(l[4:]), 10, 64); err == nil {
				idx++
				seed = v
			}
		}
	}
	return
}

func readAny(prefix string) string {
	m, _ := filepath.Glob(prefix + ".*")
	sort.Strings(m)
	var sb strings.Builder
	for _, f := range m {
		b, _ := os.ReadFile(f)
		sb.Write(b)
	}
	return sb.String()
}

func readRaceLog(work, plan string, w int) string {
	return readAny(filepath.Join(work, fmt.Sprintf("race-%s-%d", plan, w)))
}

// raceSummary keeps the header and the top library frames of both stacks.
func raceSummary(rep string) string {
	var out []string
	for _, l := range strings.Split(rep, "\n") {
		t := strings.TrimSpace(l)
		if strings.HasPrefix(t, "WARNING: DATA RACE") || strings.HasPrefix(t, "Write at") || strings.HasPrefix(t, "Read at") || strings.HasPrefix(t, "Previous write") || strings.HasPrefix(t, "Previous read") {
			out = append(out, t)
		} else if strings.Contains(t, ".go:") && !strings.Contains(t, "zzsimrt") && len(out) < 14 {
			out = append(out, "    "+t)
		}
		if strings.HasPrefix(t, "Goroutine") {
			break
		}
	}
	return strings.Join(out, "\n")
}

// onlyHarnessFrames: both access stacks contain no frame of the library under test.
func onlyHarnessFrames(rep string) bool {
	if !strings.Contains(rep, "DATA RACE") {
		return false
	}
	for _, l := range strings.Split(rep, "\n") {
		t := strings.TrimSpace(l)
		if strings.HasPrefix(t, "Goroutine") {
			break
		}
		if strings.Contains(t, "github.com/opsidian/parsley/") && !strings.Contains(t, "/zzsimrt/") {
			return false
		}
	}
	return true
}

// ---- shrink -------------------------------------------------------------------------------

// shrinkCmd delta-debugs a failing case. Candidates are evaluated in this process (fast);
// every ACCEPTED candidate is confirmed in a fresh process, because a violation may have
// tainted process-wide state (then everything "fails" here). If a confirmation fails the
// minimiser switches to one fresh process per candidate for good. With -racebin every
// evaluation is a fresh -race process (exit 66 = fails).
func shrinkCmd(id string, p Prop, in, out string, args []string) int {
	maxtime := time.Minute
	class := ""
	racebin := ""
	for i := 0; i+1 < len(args); i += 2 {
		switch args[i] {
		case "-maxtime":
			maxtime, _ = time.ParseDuration(args[i+1])
		case "-class":
			class = args[i+1]
		case "-racebin":
			racebin = args[i+1]
		}
	}
	raw, err := os.ReadFile(in)
	if err != nil {
		fmt.Fprintln(os.Stderr, err)
		return 2
	}
	self, _ := os.Executable()
	tmp, _ := os.MkdirTemp("", "shrink")
	defer os.RemoveAll(tmp)
	deadline := time.Now().Add(maxtime)
	n := 0
	// failsFile: fresh process
	failsFile := func(path string) bool {
		n++
		if racebin != "" {
			for try := 0; try < 2; try++ {
				r := runProc(2*time.Minute, raceEnv(filepath.Join(tmp, fmt.Sprintf("r%d-%d", n, try))), racebin, "replay", id, path)
				if r.code == 66 {
					return true
				}
			}
			return false
		}
		r := runProc(2*time.Minute, []string{"GOMAXPROCS=1"}, self, "replay", id, path)
		return r.code == 1 && (class == "" || strings.Contains(r.out, "class="+class+" "))
	}
	var multi struct {
		Multi []json.RawMessage `json:"multi"`
	}
	if json.Unmarshal(raw, &multi) == nil && len(multi.Multi) > 0 {
		// several cases in one process: drop leading cases while it still fails
		cur := multi.Multi
		for len(cur) > 1 && time.Now().Before(deadline) {
			dropped := false
			for _, k := range []int{len(cur) / 2, 1} {
				if k < 1 || k >= len(cur) {
					continue
				}
				f := filepath.Join(tmp, "m.json")
				writeJSON(f, map[string]interface{}{"multi": cur[k:]})
				if failsFile(f) {
					cur = cur[k:]
					dropped = true
					break
				}
			}
			if !dropped {
				break
			}
		}
		if len(cur) == 1 {
			os.WriteFile(out, cur[0], 0644)
		} else {
			writeJSON(out, map[string]interface{}{"multi": cur})
		}
		return 0
	}
	c, err := p.Decode(raw)
	if err != nil {
		fmt.Fprintln(os.Stderr, err)
		return 2
	}
	subOnly := racebin != ""
	failsSub := func(c Case) bool {
		f := filepath.Join(tmp, "c.json")
		writeJSON(f, c)
		return failsFile(f)
	}
	failsHere := func(c Case) bool {
		v := p.Run(c)
		return v.Violation && v.Known == "" && v.Discard == "" && (class == "" || v.Class == class)
	}
	if !failsSub(c) {
		// the class of a violation may depend on process history (e.g. parser-index values):
		// accept any class of this property's violations from here on
		class = ""
		if !failsSub(c) {
			fmt.Fprintln(os.Stderr, "shrink: the input case does not fail in a fresh process")
			return 2
		}
	}
	steps := 0
	for time.Now().Before(deadline) {
		progress := false
		for _, cand := range p.Shrink(c) {
			if !time.Now().Before(deadline) {
				break
			}
			b, _ := json.Marshal(cand) // deep copy, so that Run's bookkeeping cannot leak
			cc, err := p.Decode(b)
			if err != nil {
				continue
			}
			ok := false
			if subOnly {
				ok = failsSub(cc)
			} else if failsHere(cc) {
				cc2, _ := p.Decode(b)
				if failsSub(cc2) {
					ok = true
					cc = cc2
				} else {
					subOnly = true // this process is tainted by an earlier failing run
				}
			}
			if ok {
				c = cc
				progress = true
				steps++
				break
			}
		}
		if !progress {
			break
		}
	}
	fmt.Printf("shrink: %d successful reductions, %d fresh-process executions, per-candidate processes=%v\n", steps, n, subOnly)
	writeJSON(out, c)
	return 0
}

// libNondet: the instrumenter found run-to-run nondeterministic facilities in the library
// under test (the unchanged tree has none).
func libNondet(warnings map[string]bool) bool {
	for w := range warnings {
		if strings.Contains(w, "sync.Pool") || strings.HasPrefix(w, "randomness") || strings.HasPrefix(w, "clock") || strings.HasPrefix(w, "address used as data") || strings.HasPrefix(w, "runtime.") {
			return true
		}
	}
	return false
}
