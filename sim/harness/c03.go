package main

import (
	"regexp"
	"encoding/json"
	"fmt"
	"strings"

	"github.com/opsidian/parsley/ast"
	"github.com/opsidian/parsley/data"
	"github.com/opsidian/parsley/parser"
	"github.com/opsidian/parsley/parsley"
	"github.com/opsidian/parsley/text"
	sim "github.com/opsidian/parsley/zzsimrt"
)

// C03 - Memoize is transparent, deterministic and evaluates at most once per position.
//
// One simulated process history interleaves, in seeded order: parser-index churn,
// construction of twin builds in permuted order, parses of other grammars, and repeated
// parses of the plain build (a) and the memoised build (b) of one left-recursion-free
// grammar on fresh contexts, each under a fresh map-order permutation. The un-memoised
// build is the reference model.

type c03Event struct {
	Kind     string   `json:"kind"` // plain | memo | other
	Order    []int    `json:"order,omitempty"`
	Churn    int      `json:"churn,omitempty"`
	MapSeed  uint64   `json:"map_seed,omitempty"`
	Identity bool     `json:"map_identity,omitempty"`
	G        *Grammar `json:"g,omitempty"`
	Input    string   `json:"input,omitempty"`
	// Reuse (memo / warm events): parse with the grammar object built by the previous memo
	// event instead of building a twin - state kept on the grammar value across parses is
	// part of the history
	Reuse bool `json:"reuse,omitempty"`
	// SameFile: the fresh context of this parse uses the file set, file and reader objects
	// of the previous parse of the main input
	SameFile bool `json:"same_file,omitempty"`
	// Again: the caller parses a second time with the SAME context and grammar object (a
	// syntax check followed by the parse proper); the second answer must equal the first
	Again bool `json:"again,omitempty"`
	ctx   *parsley.Context // prepared ahead of the parse (c03Case.PrepareAt)
}

type c03Case struct {
	G       *Grammar   `json:"g"`
	Input   string     `json:"input"`
	History []c03Event `json:"history"`
	Prefix  int        `json:"prefix,omitempty"` // bytes of another file placed before the input in the file set
	Long    bool       `json:"long,omitempty"`   // long-input workload: larger call / render budgets
	// ViaParse: every parse of the history goes through parsley.Parse (the public entry
	// point) instead of calling the root parser directly
	ViaParse bool `json:"via_parse,omitempty"`
	// PrepareAt k > 0: just before event k-1 the caller creates the contexts of ALL remaining
	// events (a batch of inputs prepared first, parsed later), so several contexts are alive
	// while earlier ones are still being used
	PrepareAt int `json:"prepare_at,omitempty"`
}

type c03Prop struct{}

func init() { props["C03"] = &c03Prop{} }

func (*c03Prop) Level() string { return "exploration" }
func (*c03Prop) Rule() string {
	return "case = seeded left-recursion-free grammar DAG over {Rune, Op, Empty, SeqOf, SeqTry, SeqFirstOrAll, Any, Choice, Optional, Many/Many1, SepBy/SepBy1, LeftTrim/RightTrim in all modes, Name, Single, SuppressError, ReturnSingle, right/centre recursion} with a seeded subset of sub-parsers memoised, an input sampled from the grammar and mutated, and a seeded process history (index churn, permuted construction order, parses of other grammars, >= 3 repetitions of the plain and of the memoised build under fresh map-order permutations); non-trivial = the memoised build served at least one cache hit; distinct = different hash of (grammar, memo subset, input)"
}
func (*c03Prop) Assumptions() []string {
	return []string{
		"reference model: the same grammar built without Memoize",
		"leaf parsers are deterministic functions of their position (no fault is injected into leaves: the property presupposes it)",
		"observation = what Parser.Parse returns (ordered result list with every position, error position and text) plus Context.Error() position and Context.CallCount()",
		"cases whose result lists exceed the budget (ambiguity blow-up) are discarded and counted, never judged",
	}
}
func (*c03Prop) Components() map[string]interface{} {
	return map[string]interface{}{"real": []string{"combinator.*", "parser.*", "parsley.Context / ResultCache", "ast", "data", "text (reader, trims)", "text/terminal Rune / Op (instrumented copy of /repo's working tree)"},
		"stub": []string{}, "harness_owned": []string{"probe parsers under Memoize (invocation counters)", "pass-through budget guards around every parser", "history generator", "map-order stream"}}
}

func (*c03Prop) Plans(tier string) []Plan {
	if tier == "quick" {
		return []Plan{{Name: "dag", Workers: 10, Runs: 40000, MaxTime: 45e9, Size: 14}, {Name: "shared-consumers", Variant: 1, Workers: 3, Runs: 40000, MaxTime: 45e9, Size: 14}, {Name: "long-inputs", Variant: 2, Workers: 3, Runs: 450, MaxTime: 45e9, Size: 14},
			// one-case processes: the case's Memoize calls are the FIRST of the process (parser indexes 1, 2, ...)
			{Name: "dag-cold", Workers: 16000, Runs: 1, MaxTime: 20e9, Size: 12, Cold: true}}
	}
	return []Plan{{Name: "dag", Workers: 10, Runs: 4000000, MaxTime: 600e9, Size: 24}, {Name: "long-inputs", Variant: 2, Workers: 6, Runs: 4000000, MaxTime: 600e9, Size: 14}, {Name: "dag-small", Workers: 4, Runs: 4000000, MaxTime: 300e9, Size: 8}, {Name: "shared-consumers", Variant: 1, Workers: 4, Runs: 4000000, MaxTime: 600e9, Size: 20},
		{Name: "dag-cold", Workers: 200000, Runs: 1, MaxTime: 20e9, Size: 12, Cold: true}}
}

func randPerm(r *Rand, n int) []int {
	p := make([]int, n)
	for i := range p {
		p[i] = i
	}
	for i := n - 1; i > 0; i-- {
		j := r.Intn(i + 1)
		p[i], p[j] = p[j], p[i]
	}
	return p
}

// sharedConsumerGrammar: several Any / Optional / sequence consumers share one
// multi-result memoised parser - the shape that exposes aliasing of a cached list.
func sharedConsumerGrammar(r *Rand) *Grammar {
	g := &Grammar{}
	add := func(n GNode) int { g.Nodes = append(g.Nodes, n); return len(g.Nodes) - 1 }
	lits := []string{"a", "ab", "abc", "b", "abcd", "c"}
	// m = Memo(Any(lit, lit, lit))  (2-4 alternatives matching prefixes of different length)
	var alts []int
	k := r.Range(2, 4)
	for i := 0; i < k; i++ {
		a := add(GNode{Op: "op", Arg: lits[r.Intn(len(lits))]})
		if r.Chance(1, 4) {
			a = add(GNode{Op: "opt", Kids: []int{a}}) // an empty alternative that is not the last one
		}
		alts = append(alts, a)
	}
	m := add(GNode{Op: "any", Kids: alts, Memo: true})
	if r.Chance(1, 5) {
		// the shared multi-result parser sits behind a parser.FuncWrapper instead of Memoize
		g.Nodes[m].Memo = false
		m = add(GNode{Op: "fwrap", Kids: []int{m}})
	}
	if r.Chance(1, 4) {
		// a memoised parser with MANY alternatives (Fibonacci growth: 5, 8, 13, 21, 34, 55, 89
		// results on a^4..a^10): list sizes around allocator size classes
		m = add(GNode{Op: "many1", Kids: []int{add(GNode{Op: "any", Kids: []int{add(GNode{Op: "op", Arg: "a"}), add(GNode{Op: "op", Arg: "aa"})}})}, Memo: true})
	}
	consumer := func() int {
		x := add(GNode{Op: "op", Arg: lits[r.Intn(len(lits))]})
		switch r.Intn(5) {
		case 0:
			return add(GNode{Op: "any", Kids: []int{m, x}})
		case 1:
			return add(GNode{Op: "opt", Kids: []int{m}})
		case 2:
			return add(GNode{Op: "seq", Kids: []int{m, x}})
		case 3:
			return add(GNode{Op: "any", Kids: []int{x, m}})
		default:
			y := add(GNode{Op: "any", Kids: []int{m, x}})
			return add(GNode{Op: "seq", Kids: []int{y, add(GNode{Op: "opt", Kids: []int{add(GNode{Op: "rune", Arg: "d"})}})}})
		}
	}
	nc := r.Range(2, 4)
	var cs []int
	for i := 0; i < nc; i++ {
		cs = append(cs, consumer())
	}
	top := "any"
	if r.Chance(1, 3) {
		top = "seqtry"
	}
	g.Root = add(GNode{Op: top, Kids: cs})
	if a := g.analyze(); a.AnyLeft || a.BadRep {
		return sharedConsumerGrammar(r)
	}
	return g
}

// longInputGrammar: k alternatives "item* terminator" sharing one memoised item parser,
// so positions cached early are asked again after thousands of later positions were
// cached (size-dependent behaviour of the cache: thresholds, eviction, growth).
func longInputGrammar(r *Rand) (*Grammar, func(n int) string) {
	g := &Grammar{}
	add := func(n GNode) int { g.Nodes = append(g.Nodes, n); return len(g.Nodes) - 1 }
	if r.Chance(1, 4) {
		// DEEP right recursion: P -> 'a' P | 'b' (memoised), asked by two alternatives of the
		// root - nesting as deep as the input is long (counters per level, not per position)
		p := add(GNode{})
		ref := add(GNode{Op: "ref", Kids: []int{p}})
		step := add(GNode{Op: "seq", Kids: []int{add(GNode{Op: "rune", Arg: "a"}), ref}})
		g.Nodes[p] = GNode{Op: "any", Kids: []int{step, add(GNode{Op: "rune", Arg: "b"})}, Memo: true}
		if r.Chance(1, 2) {
			g.Nodes[p].Op = "choice"
		}
		a1 := add(GNode{Op: "seq", Kids: []int{p, add(GNode{Op: "rune", Arg: "x"})}})
		a2 := add(GNode{Op: "seq", Kids: []int{p, add(GNode{Op: "rune", Arg: "y"})}})
		g.Root = add(GNode{Op: "any", Kids: []int{a1, a2}})
		last := []string{"x", "y", "q"}[r.Intn(3)]
		return g, func(n int) string {
			if n > 1500 {
				n = 300 + n%1200
			}
			return strings.Repeat("a", n) + "b" + last
		}
	}
	var item int
	var unit []string
	switch r.Intn(4) {
	case 0:
		item = add(GNode{Op: "rune", Arg: "a", Memo: true})
		unit = []string{"a"}
	case 1:
		item = add(GNode{Op: "choice", Kids: []int{add(GNode{Op: "op", Arg: "ab"}), add(GNode{Op: "rune", Arg: "a"})}, Memo: true})
		unit = []string{"ab", "a"}
	case 2:
		item = add(GNode{Op: "any", Kids: []int{add(GNode{Op: "rune", Arg: "a"}), add(GNode{Op: "rune", Arg: "b"})}, Memo: true})
		unit = []string{"a", "b"}
	default:
		item = add(GNode{Op: "seq", Kids: []int{add(GNode{Op: "rune", Arg: "a"}), add(GNode{Op: "rune", Arg: "b"})}, Memo: true})
		unit = []string{"ab"}
	}
	terms := []string{"x", "y", "z"}
	k := r.Range(2, 3)
	var alts []int
	for i := 0; i < k; i++ {
		rep := "many"
		if r.Chance(1, 4) {
			rep = "many1"
		}
		m := add(GNode{Op: rep, Kids: []int{item}, Memo: r.Chance(1, 3)})
		alts = append(alts, add(GNode{Op: "seq", Kids: []int{m, add(GNode{Op: "rune", Arg: terms[i]})}}))
	}
	top := "any"
	if r.Chance(1, 3) {
		top = "choice"
	}
	g.Root = add(GNode{Op: top, Kids: alts})
	last := terms[r.Intn(k)]
	if r.Chance(1, 5) {
		last = "q" // no alternative matches
	}
	return g, func(n int) string {
		var sb strings.Builder
		for i := 0; i < n; i++ {
			sb.WriteString(unit[r.Intn(len(unit))])
		}
		sb.WriteString(last)
		return sb.String()
	}
}

func (*c03Prop) Gen(r *Rand, pl *Plan) Case {
	size := pl.Size
	if size <= 0 {
		size = 14
	}
	c := &c03Case{}
	alphabet := "ab"
	if pl.Variant == 2 {
		var mk func(int) string
		c.G, mk = longInputGrammar(r)
		c.Long = true
		c.Input = mk([]int{300, 1030, 1100, 2100, 3300, 4200}[r.Intn(6)] + r.Intn(50))
		c.Prefix = genPrefix(r)
		n := len(c.G.Nodes)
		for i := 0; i < 2; i++ {
			c.History = append(c.History, c03Event{Kind: "plain", Order: randPerm(r, n), MapSeed: r.U64()})
			ch := r.Intn(5)
			if r.Chance(1, 6) {
				ch = []int{33000, 66000, 130}[r.Intn(3)] // parser indexes beyond 2^15 / 2^16
			}
			c.History = append(c.History, c03Event{Kind: "memo", Order: randPerm(r, n), Churn: ch, MapSeed: r.U64(), Identity: r.Chance(1, 6)})
		}
		c.History = append(c.History, c03Event{Kind: "memo", Order: randPerm(r, n), MapSeed: r.U64(), Reuse: r.Bool()})
		return c
	}
	if pl.Variant == 1 {
		c.G = sharedConsumerGrammar(r)
		alphabet = "abcd"
		c.Input = []string{"abcd", "abcda", "ab", "abc", "abcabcd", "aabcd", "babcd"}[r.Intn(7)]
		if r.Chance(1, 3) {
			c.Input = c.G.genInput(r, alphabet, 10)
		}
		if hasOp(c.G, "many1") {
			c.Input = strings.Repeat("a", r.Range(4, 10)) + []string{"", "d", "b"}[r.Intn(3)]
		}
	} else {
		c.G = genGrammar(r, &genOpts{MaxNodes: r.Range(3, size), Alphabet: alphabet, Trims: r.Chance(2, 3), MemoChance: r.Range(15, 70), Names: r.Chance(1, 2), Rich: r.Chance(1, 5), Guards: r.Chance(1, 6)})
		maxLen := 8
		if size > 14 {
			maxLen = 16
		}
		if hasRich(c.G) {
			maxLen = 24
		}
		if r.Chance(1, 4) {
			// Sentence root: whole-input matching with its early exit on the first result reaching EOF
			c.G.Nodes = append(c.G.Nodes, GNode{Op: "sentence", Kids: []int{c.G.Root}, Memo: r.Chance(1, 3)})
			c.G.Root = len(c.G.Nodes) - 1
		}
		c.Input = c.G.genInput(r, alphabet, maxLen)
	}
	if !hasRich(c.G) && !hasOp(c.G, "upanic") && r.Chance(1, 6) {
		// the same grammar over a non-ASCII alphabet: byte offsets and rune counts differ
		to := []string{"é", "世", "\U0001F600"}[r.Intn(3)]
		c.G.translit('b', to)
		c.Input = strings.Replace(c.Input, "b", to, -1)
	}
	if r.Chance(1, 8) {
		c.Input = stretchWs(r, c.Input)
	}
	c.Prefix = genPrefix(r)
	n := len(c.G.Nodes)
	reps := r.Range(3, 4)
	var evs []c03Event
	for i := 0; i < reps; i++ {
		evs = append(evs, c03Event{Kind: "plain", Order: randPerm(r, n), MapSeed: r.U64(), Identity: r.Chance(1, 6), SameFile: r.Chance(1, 3), Again: r.Chance(1, 5)})
		ch := r.Intn(4) * r.Intn(4)
		if r.Chance(1, 8) {
			ch = r.Range(40, 600) // large index gaps: parser indexes far from the small values a fresh process hands out
		}
		evs = append(evs, c03Event{Kind: "memo", Order: randPerm(r, n), Churn: ch, MapSeed: r.U64(), Identity: r.Chance(1, 6), Reuse: r.Chance(1, 3), SameFile: r.Chance(1, 3), Again: r.Chance(1, 4)})
		if r.Chance(1, 4) {
			for k := r.Range(1, 3); k > 0; k-- {
				evs = append(evs, c03Event{Kind: "warm", Input: c.G.genInput(r, alphabet, 12), MapSeed: r.U64()})
			}
		}
	}
	for k := r.Intn(3); k > 0; k-- {
		og := genGrammar(r, &genOpts{MaxNodes: 8, Alphabet: alphabet, Trims: true, MemoChance: 50})
		evs = append(evs, c03Event{Kind: "other", G: og, Input: og.genInput(r, alphabet, 8), Order: randPerm(r, len(og.Nodes)), MapSeed: r.U64()})
	}
	// seeded order of the history
	for i := len(evs) - 1; i > 0; i-- {
		j := r.Intn(i + 1)
		evs[i], evs[j] = evs[j], evs[i]
	}
	c.History = evs
	if pl.Cold {
		// the first grammar of a process: no throw-away Memoize calls before it
		for i := range c.History {
			c.History[i].Churn = 0
		}
		// ... and half of these cases use the rarest whitespace mode (WsNone) for all their trims
		if r.Bool() {
			for i := range c.G.Nodes {
				if op := c.G.Nodes[i].Op; op == "ltrim" || op == "rtrim" {
					c.G.Nodes[i].Arg = "0"
				}
			}
		}
	}
	c.ViaParse = r.Chance(1, 4)
	if r.Chance(1, 5) {
		c.PrepareAt = 1 + r.Intn(len(evs))
	}
	return c
}

func (*c03Prop) Decode(b []byte) (Case, error) {
	c := &c03Case{}
	if err := json.Unmarshal(b, c); err != nil {
		return nil, err
	}
	if c.G == nil {
		return nil, fmt.Errorf("no grammar")
	}
	if err := c.G.valid(); err != nil {
		return nil, err
	}
	if a := c.G.analyze(); a.AnyLeft || a.BadRep {
		return nil, fmt.Errorf("grammar is left-recursive or has a nullable repetition operand: outside the property's premise")
	}
	for _, e := range c.History {
		if e.Kind == "other" {
			if e.G == nil || e.G.valid() != nil {
				return nil, fmt.Errorf("bad other grammar")
			}
			if a := e.G.analyze(); a.AnyLeft || a.BadRep {
				return nil, fmt.Errorf("other grammar outside the premise")
			}
		}
	}
	return c, nil
}

// ---- guards and probes ------------------------------------------------------------------

type discard struct{ why string }

type guardState struct {
	depth, calls     int
	maxDepth, maxCal int
	maxList          int
	once             map[[2]int]int // (probe idx, pos) -> invocations in this context
	onceViolation    string
	probeCalls       int
	outerCalls       map[int]int
	memoOuter        int
	memoInner        int
}

func newGuard(long bool) *guardState {
	g := &guardState{maxDepth: 600, maxCal: 60000, maxList: 96, once: map[[2]int]int{}, outerCalls: map[int]int{}}
	if long {
		g.maxCal = 600000
		g.maxDepth = 40000 // the deep right-recursive workload nests as deep as its input is long
	}
	return g
}

type guardP struct {
	st    *guardState
	idx   int
	memo  bool
	inner bool
	p     parsley.Parser
}

func (g guardP) Parse(ctx *parsley.Context, lrc data.IntMap, pos parsley.Pos) (parsley.Node, data.IntSet, parsley.Error) {
	st := g.st
	if g.inner {
		// probe directly under Memoize
		st.memoInner++
		n, cp, err := g.p.Parse(ctx, lrc, pos)
		// counted when the evaluation has an outcome: a run that ended in a panic (recovered
		// by a guard further up) produced nothing a cache could hold
		k := [2]int{g.idx, int(pos)}
		st.once[k]++
		if st.once[k] > 1 && st.onceViolation == "" {
			st.onceViolation = fmt.Sprintf("memoised parser (grammar node %d) ran %d times at position %d within one parse", g.idx, st.once[k], pos)
		}
		return n, cp, err
	}
	st.depth++
	st.calls++
	if g.memo {
		st.memoOuter++
	}
	if st.depth > st.maxDepth {
		panic(discard{"depth-budget"})
	}
	if st.calls > st.maxCal {
		panic(discard{"call-budget"})
	}
	defer func() { st.depth-- }() // (also when a panic passes through to a guard further up)
	n, cp, err := g.p.Parse(ctx, lrc, pos)
	if nl, ok := n.(ast.NodeList); ok && len(nl) > st.maxList {
		panic(discard{"list-budget"})
	}
	return n, cp, err
}

func guardWrap(st *guardState, probes bool) func(idx int, n *GNode, layer string, p parsley.Parser) parsley.Parser {
	return func(idx int, n *GNode, layer string, p parsley.Parser) parsley.Parser {
		if layer == "inner" {
			if !probes {
				return p
			}
			return guardP{st: st, idx: idx, inner: true, p: p}
		}
		return guardP{st: st, idx: idx, memo: n.Memo, p: p}
	}
}

type c03Obs struct {
	res, err, ctxErr string
	calls            int
	once             string
	again            string
	hits             int
	discard          string
}

// hugeFile is a file-set entry of arbitrary length without content: it places the parsed
// file at a large global position (placement in the file set is configuration the
// simulated history owns; positions are plain ints).
type hugeFile struct{ n, off int }

func (f *hugeFile) Position(int) parsley.Position { return parsley.NilPosition }
func (f *hugeFile) Pos(i int) parsley.Pos         { return parsley.Pos(f.off + i) }
func (f *hugeFile) Len() int                      { return f.n }
func (f *hugeFile) SetOffset(o int)               { f.off = o }

var hugeSizes = []int{200, 250, 254, 255, 256, 300, 1000, 4095, 4096, 5000, 40000, 1<<16 - 3, 1 << 20, 1<<20 + 5, 3 << 20, 1 << 24, 1<<31 - 10, 1<<31 + 7, 1<<32 + 1, 1 << 40}

func genPrefix(r *Rand) int {
	switch {
	case r.Chance(1, 10):
		return hugeSizes[r.Intn(len(hugeSizes))]
	case r.Chance(1, 4):
		return r.Range(1, 20)
	}
	return 0
}

func newCtx(input string, prefix int) *parsley.Context {
	fs := parsley.NewFileSet()
	if prefix > 64 {
		fs.AddFile(&hugeFile{n: prefix})
	} else if prefix > 0 {
		fs.AddFile(text.NewFile("pre", []byte(strings.Repeat("x", prefix))))
	}
	f := text.NewFile("in", []byte(input))
	fs.AddFile(f)
	return parsley.NewContext(fs, text.NewReader(f))
}

// ctxSource hands out contexts for the repetitions of one case: always a fresh
// parsley.Context, but - when reuse is set - over the SAME file set, file and reader
// objects as the previous repetition (a caller parsing one loaded file again).
type ctxSource struct {
	fs     *parsley.FileSet
	reader *text.Reader
	input  string
	prefix int
}

func (s *ctxSource) get(input string, prefix int, reuse bool) *parsley.Context {
	if reuse && s.fs != nil && s.input == input && s.prefix == prefix {
		return parsley.NewContext(s.fs, s.reader)
	}
	ctx := newCtx(input, prefix)
	s.fs, s.reader, s.input, s.prefix = ctx.FileSet(), ctx.Reader().(*text.Reader), input, prefix
	return ctx
}

// parseOnce builds the grammar and parses the input on a fresh context.
type c03Built struct {
	b  *built
	st *guardState
}

func c03ParseOnce(g *Grammar, input string, prefix int, memo bool, e *c03Event, shim bool, long bool, keep **c03Built) (o c03Obs) {
	return c03ParseOnceOpt(g, input, prefix, memo, false, e, shim, long, keep)
}

var c03Ctx *ctxSource // set by c03Judge for the duration of one case
var c03ViaParse bool
var c03PosRe = regexp.MustCompile(` at [^ ]*:[0-9]+:[0-9]+$`)

func c03ParseOnceOpt(g *Grammar, input string, prefix int, memo, refMemo bool, e *c03Event, shim bool, long bool, keep **c03Built) (o c03Obs) {
	defer func() {
		if r := recover(); r != nil {
			if d, ok := r.(discard); ok {
				o.discard = d.why
				return
			}
			if hasRich(g) {
				o.discard = "literal-parser-panic"
				return
			}
			if ub, ok := r.(userBoom); ok {
				// the deliberately panicking user leaf, with no guard above it: what this build does
				o.res, o.err, o.ctxErr = "PANIC "+string(ub), "-", "-"
				return
			}
			if panicInLibrary() {
				// a panic inside the library on a premise-satisfying input is what this build
				// of the grammar does with the input: an observation like any other
				o.res, o.err, o.ctxErr = "PANIC "+clip(fmt.Sprint(r)), "-", "-"
				return
			}
			panic(r)
		}
	}()
	sim.SetMapSeed(e.MapSeed, e.Identity)
	churn(e.Churn)
	var st *guardState
	var b *built
	if keep != nil && *keep != nil && e.Reuse {
		b, st = (*keep).b, (*keep).st
		*st = *newGuard(long) // the wrappers hold st: reset the per-parse counters in place
	} else {
		st = newGuard(long)
		b = build(g, &buildOpts{Memo: memo, RefMemo: refMemo, Order: e.Order, CloneBeforeRTrim: shim, Wrap: guardWrap(st, memo)})
		if keep != nil {
			*keep = &c03Built{b, st}
		}
	}
	var ctx *parsley.Context
	if e.ctx != nil {
		ctx, e.ctx = e.ctx, nil
	} else if c03Ctx != nil && e.Kind != "other" {
		ctx = c03Ctx.get(input, prefix, e.SameFile)
	} else {
		ctx = newCtx(input, prefix)
	}
	parse := func() (parsley.Node, string) {
		if c03ViaParse && e.Kind != "other" {
			// The error parsley.Parse returns is the root parser's error or - when that lies
			// further - the context's furthest error, whose POSITION the property fixes but whose
			// message it does not (the last error recorded at that position wins, and a cache
			// hit records nothing). So: the root parser's own error through a pass-through
			// recorder, plus the position parsley.Parse reports.
			var rootErr parsley.Error
			rec := parser.Func(func(ctx *parsley.Context, lrc data.IntMap, pos parsley.Pos) (parsley.Node, data.IntSet, parsley.Error) {
				n, cp, err := b.Root.Parse(ctx, lrc, pos)
				rootErr = err
				return n, cp, err
			})
			n, err := parsley.Parse(ctx, rec)
			if err != nil {
				where := "no position"
				if m := c03PosRe.FindString(err.Error()); m != "" {
					where = m
				}
				return n, renderErr(rootErr) + " / parsley.Parse error" + where
			}
			return n, "-"
		}
		n, _, err := b.Root.Parse(ctx, data.EmptyIntMap, ctx.Reader().Pos(0))
		return n, renderErr(err)
	}
	n, errText := parse()
	var over bool
	budget := 1 << 15
	if long {
		budget = 1 << 21
	}
	o.res, over = renderNode(n, budget)
	if over {
		o.discard = "render-budget"
		return
	}
	o.err = errText
	if ce := ctx.Error(); ce != nil {
		o.ctxErr = fmt.Sprint(ce.Pos())
	} else {
		o.ctxErr = "-"
	}
	o.calls = ctx.CallCount()
	o.once = st.onceViolation
	o.hits = st.memoOuter - st.memoInner
	if e.Again && !hasOp(g, "rtrim") {
		// (not with RightTrim in the grammar: the open finding moves cached nodes in place)
		first := o.visible()
		*st = *newGuard(long)
		n2, err2 := parse()
		res2, over2 := renderNode(n2, budget)
		if !over2 {
			ce2 := "-"
			if ce := ctx.Error(); ce != nil {
				ce2 = fmt.Sprint(ce.Pos())
			}
			second := "results=" + res2 + " err=" + err2 + " ctxerr@" + ce2
			if second != first {
				o.again = fmt.Sprintf("a second parse with the same context and grammar object answered differently:\n  first:  %s\n  second: %s", clip(first), clip(second))
			} else if st.onceViolation != "" {
				o.again = "in the second parse with the same context: " + st.onceViolation
			} else if memo && ctx.CallCount()-o.calls > o.calls {
				o.again = fmt.Sprintf("the second parse with the same context made %d calls, the first %d", ctx.CallCount()-o.calls, o.calls)
			}
		}
	}
	return o
}

func (o *c03Obs) visible() string { return "results=" + o.res + " err=" + o.err + " ctxerr@" + o.ctxErr }

func hasOp(g *Grammar, op string) bool {
	seen := g.reachable()
	for i, n := range g.Nodes {
		if seen[i] && n.Op == op {
			return true
		}
	}
	return false
}

const c03Known = "C03-rtrim-readerpos"

// c03Judge runs the history and returns the first violated clause.
func c03Judge(c *c03Case, shim bool, v *Verdict) (class, detail string) {
	var plain, memo *c03Obs
	var lastMemo *c03Built
	c03Ctx = &ctxSource{}
	c03ViaParse = c.ViaParse
	defer func() { c03Ctx, c03ViaParse = nil, false }()
	for i := range c.History {
		c.History[i].ctx = nil
	}
	for i := range c.History {
		e := &c.History[i]
		if c.PrepareAt > 0 && i == c.PrepareAt-1 {
			for j := i; j < len(c.History); j++ {
				switch pe := &c.History[j]; pe.Kind {
				case "plain", "memo":
					pe.ctx = c03Ctx.get(c.Input, c.Prefix, pe.SameFile)
				case "warm":
					pe.ctx = c03Ctx.get(pe.Input, c.Prefix, false)
				}
				v.Probes["contexts_prepared_ahead"]++
			}
		}
		switch e.Kind {
		case "other":
			o := c03ParseOnce(e.G, e.Input, 0, true, e, shim, false, nil)
			_ = o
			v.Probes["other_grammar_parses"]++
		case "plain":
			o := c03ParseOnce(c.G, c.Input, c.Prefix, false, e, shim, c.Long, nil)
			if o.discard != "" {
				return "discard", o.discard
			}
			v.Probes["plain_parses"]++
			if o.again != "" {
				return "determinism:same-context", "un-memoised build: " + o.again
			}
			if plain == nil {
				plain = &o
			} else if o.visible() != plain.visible() || o.calls != plain.calls {
				return "determinism:plain", fmt.Sprintf("two parses of the un-memoised build differ:\n  first: %s calls=%d\n  later: %s calls=%d", clip(plain.visible()), plain.calls, clip(o.visible()), o.calls)
			}
		case "warm":
			// another input parsed with the grammar object of the previous memo event
			if lastMemo != nil {
				we := *e
				we.Reuse = true
				wo := c03ParseOnce(c.G, e.Input, c.Prefix, true, &we, shim, c.Long, &lastMemo)
				v.Probes["warm_parses_on_a_reused_grammar"]++
				// transparency holds for every input the long-lived grammar object is given, not
				// only for the first: the same input on a fresh un-memoised build
				pe := c03Event{Kind: "plain", MapSeed: e.MapSeed, Identity: e.Identity}
				po := c03ParseOnce(c.G, e.Input, c.Prefix, false, &pe, shim, c.Long, nil)
				if wo.discard == "" && po.discard == "" {
					if wo.once != "" {
						return "once", "on a later input parsed with the same grammar object: " + wo.once
					}
					if wo.visible() != po.visible() {
						return "transparency", fmt.Sprintf("memoised and plain builds differ on a LATER input %q parsed with the grammar object that had parsed %q before:\n  plain: %s\n  memo:  %s", e.Input, c.Input, clip(po.visible()), clip(wo.visible()))
					}
				}
			}
		case "memo":
			if e.Reuse && lastMemo != nil {
				v.Probes["memo_parses_on_a_reused_grammar"]++
			}
			o := c03ParseOnce(c.G, c.Input, c.Prefix, true, e, shim, c.Long, &lastMemo)
			if o.discard != "" {
				return "discard", o.discard
			}
			v.Probes["memo_parses"]++
			v.Probes["cache_hits"] += int64(o.hits)
			if o.once != "" {
				return "once", o.once
			}
			if o.again != "" {
				return "determinism:same-context", "memoised build: " + o.again
			}
			if e.Again {
				v.Probes["second_parses_on_the_same_context"]++
			}
			if memo == nil {
				memo = &o
				// the library's Memoize against the reference memo table (same grammar, same
				// construction order): identical whatever other combinators do to shared nodes
				ref := c03ParseOnceOpt(c.G, c.Input, c.Prefix, true, true, e, shim, c.Long, nil)
				v.Probes["reference_memo_parses"]++
				if ref.discard == "" && !shim && (ref.visible() != o.visible() || ref.calls != o.calls) {
					return "memo-model", fmt.Sprintf("the memoised build differs from the same grammar with the reference memo table (one entry per context and position, stored result handed back as is) on input %q:\n  Memoize:   %s calls=%d\n  reference: %s calls=%d", c.Input, clip(o.visible()), o.calls, clip(ref.visible()), ref.calls)
				}
			} else if o.visible() != memo.visible() || o.calls != memo.calls {
				return "determinism:memo", fmt.Sprintf("repeating the parse of the memoised build on a fresh context (other construction order / index gap / map order) gave a different observation:\n  first: %s calls=%d\n  later: %s calls=%d", clip(memo.visible()), memo.calls, clip(o.visible()), o.calls)
			}
		}
		if plain != nil && memo != nil && plain.visible() != memo.visible() {
			return "transparency", fmt.Sprintf("memoised and plain builds differ on input %q:\n  plain: %s\n  memo:  %s", c.Input, clip(plain.visible()), clip(memo.visible()))
		}
	}
	if memo != nil && memo.hits > 0 {
		v.Nontrivial = true
	}
	return "", ""
}

func (*c03Prop) Run(cc Case) Verdict {
	c := cc.(*c03Case)
	v := Verdict{Probes: map[string]int64{}, Faults: map[string]int64{}}
	for _, e := range c.History {
		if !e.Identity {
			v.Faults["map_order_stream"]++
		}
		if e.Churn > 0 {
			v.Faults["parser_index_churn"]++
		}
		v.Faults["permuted_construction_order"]++
	}
	class, detail := c03Judge(c, false, &v)
	b, _ := json.Marshal(c.G)
	v.Fingerprint = fnv(fnv(0, string(b)), c.Input)
	v.Steps = v.Probes["plain_parses"] + v.Probes["memo_parses"] + v.Probes["other_grammar_parses"]
	switch class {
	case "":
		return v
	case "discard":
		v.Discard = detail
		v.Nontrivial = false
		return v
	}
	v.Violation, v.Class, v.Detail = true, class, detail
	if class == "transparency" && hasOp(c.G, "rtrim") && openFindings[c03Known] {
		// causal test for the open RightTrim finding: hand RightTrim clones of its
		// operand's result; if the divergence disappears it is that finding.
		v2 := Verdict{Probes: map[string]int64{}, Faults: map[string]int64{}}
		if cl, dt := c03Judge(c, true, &v2); cl == "" {
			v.Known = c03Known
			v.Probes["known_rtrim_divergences"]++
		} else if cl == "discard" {
			// the causal test itself ran out of budget (with clones instead of in-place moves
			// an ambiguous grammar can explore far more paths): the case is inconclusive like
			// any other case that exceeds a budget, it is not evidence of a second defect
			v.Violation, v.Class, v.Detail = false, "", ""
			v.Discard = "rtrim-causal-test:" + dt
			v.Nontrivial = false
		}
	}
	return v
}

func (*c03Prop) Shrink(cc Case) []Case {
	c := cc.(*c03Case)
	var out []Case
	clone := func() *c03Case {
		b, _ := json.Marshal(c)
		k := &c03Case{}
		json.Unmarshal(b, k)
		return k
	}
	// drop history events (keep at least one plain and one memo)
	for i, e := range c.History {
		cnt := 0
		for _, x := range c.History {
			if x.Kind == e.Kind {
				cnt++
			}
		}
		if e.Kind == "other" || e.Kind == "warm" || cnt > 1 {
			k := clone()
			k.History = append(append([]c03Event(nil), k.History[:i]...), k.History[i+1:]...)
			out = append(out, k)
		}
	}
	for _, sg := range shrinkGrammarOpt(c.G, false) {
		k := clone()
		k.G = sg
		for i := range k.History {
			if k.History[i].Kind != "other" {
				k.History[i].Order = nil
			}
		}
		out = append(out, k)
	}
	for l := len(c.Input) / 2; l >= 1; l /= 2 {
		for s := 0; s+l <= len(c.Input); s += l {
			k := clone()
			k.Input = c.Input[:s] + c.Input[s+l:]
			out = append(out, k)
		}
	}
	if c.Prefix > 0 {
		k := clone()
		k.Prefix = 0
		out = append(out, k)
	}
	if c.ViaParse || c.PrepareAt > 0 {
		k := clone()
		k.ViaParse, k.PrepareAt = false, 0
		out = append(out, k)
	}
	for i, e := range c.History {
		if e.Churn > 0 || !e.Identity || e.Order != nil || e.Again {
			k := clone()
			k.History[i].Churn, k.History[i].Identity, k.History[i].Order, k.History[i].Again = 0, true, nil, false
			out = append(out, k)
		}
	}
	return out
}
