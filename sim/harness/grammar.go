package main

import (
	"runtime/debug"
	"fmt"
	"reflect"
	"strings"

	"github.com/opsidian/parsley/ast"
	"github.com/opsidian/parsley/ast/interpreter"
	"github.com/opsidian/parsley/combinator"
	"github.com/opsidian/parsley/data"
	"github.com/opsidian/parsley/parser"
	"github.com/opsidian/parsley/parsley"
	"github.com/opsidian/parsley/text"
	"github.com/opsidian/parsley/text/terminal"
	sim "github.com/opsidian/parsley/zzsimrt"
)

// Grammar is the JSON-serialisable description of a parser graph. Every edge goes
// through a slot (a delegating parser), so nodes can be constructed in any order - the
// order in which Memoize allocates parser indexes is part of the simulated history.
type GNode struct {
	Op   string `json:"op"`
	Arg  string `json:"arg,omitempty"`
	Kids []int  `json:"kids,omitempty"`
	Memo bool   `json:"memo,omitempty"`
	Name string `json:"name,omitempty"`
	Tok  string `json:"tok,omitempty"` // explicit .Token(...) of a sequence
}

type Grammar struct {
	Nodes []GNode `json:"nodes"`
	Root  int     `json:"root"`
}

type slot struct{ p parsley.Parser }

func (s *slot) Parse(ctx *parsley.Context, lrc data.IntMap, pos parsley.Pos) (parsley.Node, data.IntSet, parsley.Error) {
	return s.p.Parse(ctx, lrc, pos)
}

type buildOpts struct {
	Memo             bool // honour Memo flags
	RefMemo          bool // use the harness's reference memo table instead of combinator.Memoize
	Interp           bool // bind the harness interpreter to every sequence
	LibInterp        bool // bind the library's Array interpreter to SepBy / SepBy1, an evaluate-all interpreter elsewhere
	CloneBeforeRTrim bool // causal-test shim for the open RightTrim finding
	Order            []int
	Between          func(i int) // called before constructing node Order[i] (index churn)
	// Wrap is applied to every constructed parser: layer "inner" sits under Memoize,
	// "outer" is what the parents see.
	Wrap func(idx int, n *GNode, layer string, p parsley.Parser) parsley.Parser
}

type built struct {
	Root    parsley.Parser
	Slots   []*slot
	NumMemo int
}

func wsMode(arg string) text.WsMode {
	switch arg {
	case "0":
		return text.WsNone
	case "1":
		return text.WsSpaces
	case "3":
		return text.WsSpacesForceNl
	}
	return text.WsSpacesNl
}

func (g *Grammar) valid() error {
	if g.Root < 0 || g.Root >= len(g.Nodes) {
		return fmt.Errorf("bad root")
	}
	for i, n := range g.Nodes {
		for _, k := range n.Kids {
			if k < 0 || k >= len(g.Nodes) {
				return fmt.Errorf("node %d: bad kid %d", i, k)
			}
		}
		need := -1
		switch n.Op {
		case "rune", "urune", "unode", "unode2", "upanic", "op", "empty", "int", "float", "str", "char", "bool", "nil", "word", "regexp", "dur", "end":
			need = 0
		case "opt", "many", "many1", "ltrim", "rtrim", "single", "suppress", "ref", "sentence", "memo", "fwrap", "guard":
			need = 1
		case "sepby", "sepby1":
			need = 2
		case "seq", "seqtry", "seqfoa", "any", "choice":
			if len(n.Kids) == 0 {
				return fmt.Errorf("node %d: %s without kids", i, n.Op)
			}
		default:
			return fmt.Errorf("node %d: unknown op %q", i, n.Op)
		}
		if need >= 0 && len(n.Kids) != need {
			return fmt.Errorf("node %d: %s needs %d kids", i, n.Op, need)
		}
		if (n.Op == "rune" || n.Op == "urune" || n.Op == "unode" || n.Op == "unode2" || n.Op == "upanic" || n.Op == "op" || n.Op == "word") && n.Arg == "" {
			return fmt.Errorf("node %d: empty literal", i)
		}
	}
	return nil
}

// concatInterp is the harness-owned interpreter bound to sequences in Evaluate
// workloads. It is an abort point: the only place where a Go caller can really be
// aborted is a panic in user code.
var concatInterp = ast.InterpreterFunc(func(userCtx interface{}, node parsley.NonTerminalNode) (interface{}, parsley.Error) {
	sim.AbortPoint()
	var sb strings.Builder
	if userCtx != nil {
		// the evaluation context each caller set on its own parsley.Context
		fmt.Fprintf(&sb, "[%v]", userCtx)
	}
	sb.WriteString("(")
	for _, c := range node.Children() {
		switch x := c.(type) {
		case parsley.LiteralNode:
			fmt.Fprintf(&sb, "%v ", x.Value())
		case parsley.NonLiteralNode:
			v, err := x.Value(userCtx)
			if err != nil {
				return nil, err
			}
			fmt.Fprintf(&sb, "%v ", v)
		default:
			sb.WriteString("e ")
		}
	}
	sb.WriteString(")")
	return sb.String(), nil
})

// evalAllInterp evaluates every child and returns the values.
var evalAllInterp = ast.InterpreterFunc(func(userCtx interface{}, node parsley.NonTerminalNode) (interface{}, parsley.Error) {
	var vals []interface{}
	for _, c := range node.Children() {
		v, err := parsley.EvaluateNode(userCtx, c)
		if err != nil {
			return nil, err
		}
		vals = append(vals, v)
	}
	return vals, nil
})

// userNode is a node type defined by the user of the library (not one of ast / terminal):
// a literal leaf with an in-place SetReaderPos, like the library's own leaves.
type userNode struct {
	tok       string
	val       interface{}
	pos, rpos parsley.Pos
	end       parsley.Pos
	endOnly   bool // reports its END from Pos() too (like parser.EndNode does): the Node interface does not forbid it
}

func (u *userNode) Token() string       { return u.tok }
func (u *userNode) Schema() interface{} { return nil }
func (u *userNode) Pos() parsley.Pos {
	if u.endOnly {
		return u.end
	}
	return u.pos
}
func (u *userNode) ReaderPos() parsley.Pos { return u.rpos }
func (u *userNode) Value() interface{}     { return u.val }
func (u *userNode) SetReaderPos(f func(parsley.Pos) parsley.Pos) {
	u.rpos = f(u.rpos)
}

// userRune is a user-supplied leaf parser producing userNode values.
func userRune(ch rune, endOnly bool) parsley.Parser {
	nf := parsley.NotFoundError("user " + string(ch))
	return parser.Func(func(ctx *parsley.Context, lrc data.IntMap, pos parsley.Pos) (parsley.Node, data.IntSet, parsley.Error) {
		tr := ctx.Reader().(*text.Reader)
		if rp, ok := tr.ReadRune(pos, ch); ok {
			return &userNode{tok: "U" + string(ch), val: string(ch), pos: pos, rpos: rp, end: rp, endOnly: endOnly}, data.EmptyIntSet, nil
		}
		if endOnly {
			// a user error whose cause is a value of a type that cannot be compared with ==
			return nil, data.EmptyIntSet, parsley.NewError(pos, expectedOneOf{[]string{"user " + string(ch)}})
		}
		return nil, data.EmptyIntSet, parsley.NewError(pos, nf)
	})
}

// userBoom is the panic value of the deliberately panicking user leaf parser.
type userBoom string

// userPanicky matches ch; on the OTHER letter of the alphabet it panics (a third-party
// parser with a bug on some inputs); anything else is a plain miss.
func userPanicky(ch rune) parsley.Parser {
	other := 'a' + 'b' - ch
	nf := parsley.NotFoundError("panicky " + string(ch))
	return parser.Func(func(ctx *parsley.Context, lrc data.IntMap, pos parsley.Pos) (parsley.Node, data.IntSet, parsley.Error) {
		tr := ctx.Reader().(*text.Reader)
		if rp, ok := tr.ReadRune(pos, ch); ok {
			return ast.NewTerminalNode(nil, string(ch), ch, pos, rp), data.EmptyIntSet, nil
		}
		if _, ok := tr.ReadRune(pos, other); ok {
			panic(userBoom(fmt.Sprintf("boom at %d", pos)))
		}
		return nil, data.EmptyIntSet, parsley.NewError(pos, nf)
	})
}

// expectedOneOf is a user-defined error cause with a slice inside (not comparable).
type expectedOneOf struct{ opts []string }

func (e expectedOneOf) Error() string { return "was expecting one of " + strings.Join(e.opts, ", ") }

// userHandler is a user-supplied SeqResultHandler (copies the node window, as documented).
var userHandler = combinator.SeqResultHandlerFunc(func(pos parsley.Pos, token string, nodes []parsley.Node, interp parsley.Interpreter) parsley.Node {
	if len(nodes) == 0 {
		return ast.NewEmptyNonTerminalNode("U"+token, pos, interp)
	}
	cp := make([]parsley.Node, len(nodes))
	copy(cp, nodes)
	return ast.NewNonTerminalNode("U"+token, cp, interp)
})

// prebuiltErr: a positioned parsley.Error value created when the grammar is constructed.
// NewError hands an existing parsley.Error back unchanged, so this one object sits in
// the shared graph and is returned to every run whose alternative fails.
func prebuiltErr(name string) error {
	return parsley.NewErrorf(parsley.NilPos, "was expecting %s (custom)", strings.TrimPrefix(name, "!"))
}

func build(g *Grammar, o *buildOpts) *built {
	n := len(g.Nodes)
	b := &built{Slots: make([]*slot, n)}
	for i := range b.Slots {
		b.Slots[i] = &slot{}
	}
	order := o.Order
	if len(order) != n {
		order = make([]int, n)
		for i := range order {
			order[i] = n - 1 - i
		}
	}
	kid := func(nd *GNode, j int) parsley.Parser { return b.Slots[nd.Kids[j]] }
	kids := func(nd *GNode) []parsley.Parser {
		ps := make([]parsley.Parser, len(nd.Kids))
		for j := range nd.Kids {
			ps[j] = b.Slots[nd.Kids[j]]
		}
		return ps
	}
	for oi, i := range order {
		if o.Between != nil {
			o.Between(oi)
		}
		nd := &g.Nodes[i]
		var p parsley.Parser
		var seq *combinator.Sequence
		switch nd.Op {
		case "rune":
			p = terminal.Rune([]rune(nd.Arg)[0])
		case "unode":
			p = userRune([]rune(nd.Arg)[0], false)
		case "unode2":
			p = userRune([]rune(nd.Arg)[0], true)
		case "upanic":
			p = userPanicky([]rune(nd.Arg)[0])
		case "guard":
			// a user combinator that recovers from panics of its operand and reports them as an
			// error (a per-rule guard around third-party parsers)
			k := kid(nd, 0)
			p = parser.Func(func(ctx *parsley.Context, lrc data.IntMap, pos parsley.Pos) (n parsley.Node, cp data.IntSet, err parsley.Error) {
				defer func() {
					if r := recover(); r != nil {
						if _, ok := r.(userBoom); !ok {
							panic(r)
						}
						n, cp, err = nil, data.EmptyIntSet, parsley.NewErrorf(pos, "recovered: %v", r)
					}
				}()
				return k.Parse(ctx, lrc, pos)
			})
		case "fwrap":
			// parser.FuncWrapper around the kid (pointer: works with value and pointer receivers)
			k := kid(nd, 0)
			p = &parser.FuncWrapper{F: func(ctx *parsley.Context, lrc data.IntMap, pos parsley.Pos) (parsley.Node, data.IntSet, parsley.Error) {
				return k.Parse(ctx, lrc, pos)
			}}
		case "urune":
			// a user-supplied leaf parser: the other place (besides interpreters) where a
			// caller can be aborted by a panic in user code while a parse is in flight
			inner := terminal.Rune([]rune(nd.Arg)[0])
			p = parser.Func(func(ctx *parsley.Context, lrc data.IntMap, pos parsley.Pos) (parsley.Node, data.IntSet, parsley.Error) {
				sim.AbortPoint()
				return inner.Parse(ctx, lrc, pos)
			})
		case "op":
			p = terminal.Op(nd.Arg)
		case "empty":
			p = parser.Empty()
		case "end":
			p = parser.End()
		case "int":
			p = terminal.Integer(nil)
		case "float":
			p = terminal.Float(nil)
		case "str":
			p = terminal.String(nil, true)
		case "char":
			p = terminal.Char(nil)
		case "bool":
			p = terminal.Bool(nil, "true", "false")
		case "nil":
			p = terminal.Nil(nil, "nil")
		case "word":
			p = terminal.Word(nil, nd.Arg, nd.Arg)
		case "regexp":
			p = terminal.Regexp(nil, "RE", "re", "[ab]+", 0)
		case "dur":
			p = terminal.TimeDuration(nil)
		case "seq":
			seq = combinator.SeqOf(kids(nd)...)
		case "seqtry":
			seq = combinator.SeqTry(kids(nd)...)
		case "seqfoa":
			seq = combinator.SeqFirstOrAll(kids(nd)...)
		case "many":
			seq = combinator.Many(kid(nd, 0))
		case "many1":
			seq = combinator.Many1(kid(nd, 0))
		case "sepby":
			seq = combinator.SepBy(kid(nd, 0), kid(nd, 1))
		case "sepby1":
			seq = combinator.SepBy1(kid(nd, 0), kid(nd, 1))
		case "sentence":
			seq = combinator.Sentence(kid(nd, 0))
		case "any":
			p = combinator.Any(kids(nd)...)
		case "choice":
			p = combinator.Choice(kids(nd)...)
		case "opt":
			p = combinator.Optional(kid(nd, 0))
		case "single":
			p = combinator.Single(kid(nd, 0))
		case "suppress":
			p = combinator.SuppressError(kid(nd, 0))
		case "ltrim":
			p = text.LeftTrim(kid(nd, 0), wsMode(nd.Arg))
		case "rtrim":
			k := kid(nd, 0)
			if o.CloneBeforeRTrim {
				k = cloner{k}
			}
			p = text.RightTrim(k, wsMode(nd.Arg))
		case "ref", "memo":
			p = kid(nd, 0)
		default:
			panic("build: unknown op " + nd.Op)
		}
		if seq != nil {
			if nd.Tok != "" {
				seq = seq.Token(nd.Tok)
			}
			if nd.Arg == "single" {
				seq = seq.HandleResult(combinator.ReturnSingle())
			} else if nd.Arg == "custom" {
				seq = seq.HandleResult(userHandler)
			}
			if o.Interp && nd.Op != "sentence" {
				seq = seq.Bind(concatInterp)
			} else if o.LibInterp && nd.Op != "sentence" {
				if (nd.Op == "sepby" || nd.Op == "sepby1") && i%2 == 1 {
					seq = seq.Bind(interpreter.Object()) // (an empty list evaluates to {} whatever the element shape)
				} else if nd.Op == "sepby" || nd.Op == "sepby1" {
					seq = seq.Bind(interpreter.Array())
				} else {
					seq = seq.Bind(evalAllInterp)
				}
			}
			if nd.Name != "" && !strings.HasPrefix(nd.Name, "!") {
				seq = seq.Name(nd.Name)
			}
			p = seq
			if strings.HasPrefix(nd.Name, "!") {
				p = parser.ReturnError(p, prebuiltErr(nd.Name))
			}
		} else if strings.HasPrefix(nd.Name, "!") {
			p = parser.ReturnError(p, prebuiltErr(nd.Name))
		} else if nd.Name != "" {
			p = parser.ReturnError(p, parsley.NotFoundError(nd.Name))
		}
		if (nd.Memo || nd.Op == "memo") && o.Memo {
			if o.Wrap != nil {
				p = o.Wrap(i, nd, "inner", p)
			}
			if o.RefMemo {
				p = &refMemo{p: p, tab: map[*parsley.Context]map[parsley.Pos]*refEntry{}}
			} else {
				p = combinator.Memoize(p)
			}
			b.NumMemo++
		}
		if o.Wrap != nil {
			p = o.Wrap(i, nd, "outer", p)
		}
		b.Slots[i].p = p
	}
	b.Root = b.Slots[g.Root]
	return b
}

// refMemo is the reference model of Memoize for left-recursion-free grammars: one table
// per context and position, the stored (node, curtailing set, error) handed back as is
// (same object identity as the library's cache, so in-place writes by other combinators
// show up in both alike), a stored list's capacity clipped.
type refEntry struct {
	n   parsley.Node
	cp  data.IntSet
	err parsley.Error
}

type refMemo struct {
	p   parsley.Parser
	tab map[*parsley.Context]map[parsley.Pos]*refEntry
}

func (m *refMemo) Parse(ctx *parsley.Context, lrc data.IntMap, pos parsley.Pos) (parsley.Node, data.IntSet, parsley.Error) {
	t := m.tab[ctx]
	if t == nil {
		t = map[parsley.Pos]*refEntry{}
		m.tab[ctx] = t
	}
	if e, ok := t[pos]; ok {
		return e.n, e.cp, e.err
	}
	n, cp, err := m.p.Parse(ctx, lrc, pos)
	if nl, ok := n.(ast.NodeList); ok {
		n = nl[:len(nl):len(nl)]
	}
	t[pos] = &refEntry{n, cp, err}
	return n, cp, err
}

// ---- analysis -------------------------------------------------------------------------

func isLeafOp(op string) bool {
	switch op {
	case "rune", "urune", "unode", "unode2", "upanic", "op", "empty", "int", "float", "str", "char", "bool", "nil", "word", "regexp", "dur", "end":
		return true
	}
	return false
}

type analysis struct {
	Nullable []bool
	LeftRec  []bool // node lies on a left-recursive cycle
	AnyLeft  bool
	BadRep   bool // a repetition operand can match the empty string
	// Unguarded: some left-recursive cycle contains no memoised node (outside the premise
	// "every recursive nonterminal is wrapped in Memoize")
	Unguarded bool
}

func (g *Grammar) analyze() *analysis {
	n := len(g.Nodes)
	a := &analysis{Nullable: make([]bool, n), LeftRec: make([]bool, n)}
	for changed := true; changed; {
		changed = false
		for i := range g.Nodes {
			nd := &g.Nodes[i]
			v := false
			k := func(j int) bool { return a.Nullable[nd.Kids[j]] }
			switch nd.Op {
			case "empty", "end", "opt", "many", "sepby":
				v = true
			case "seq", "sentence":
				v = true
				for j := range nd.Kids {
					v = v && k(j)
				}
				if nd.Op == "sentence" {
					v = k(0)
				}
			case "seqtry", "seqfoa", "many1", "sepby1", "ltrim", "rtrim", "single", "suppress", "ref", "memo", "fwrap", "guard":
				v = k(0)
			case "any", "choice":
				for j := range nd.Kids {
					v = v || k(j)
				}
			}
			if v != a.Nullable[i] {
				a.Nullable[i] = v
				changed = true
			}
		}
	}
	// left-reach edges
	edges := make([][]int, n)
	for i := range g.Nodes {
		nd := &g.Nodes[i]
		switch nd.Op {
		case "seq", "seqtry", "seqfoa", "sentence":
			for j, kk := range nd.Kids {
				edges[i] = append(edges[i], kk)
				if !a.Nullable[nd.Kids[j]] {
					break
				}
			}
		case "sepby", "sepby1":
			edges[i] = append(edges[i], nd.Kids[0])
			if a.Nullable[nd.Kids[0]] {
				edges[i] = append(edges[i], nd.Kids[1])
				a.BadRep = true
			}
		case "many", "many1":
			edges[i] = append(edges[i], nd.Kids[0])
			if a.Nullable[nd.Kids[0]] {
				a.BadRep = true
			}
		default:
			edges[i] = append(edges[i], nd.Kids...)
		}
	}
	// a left-recursive cycle through un-memoised nodes only?
	for i := 0; i < n && !a.Unguarded; i++ {
		if g.Nodes[i].Memo || g.Nodes[i].Op == "memo" {
			continue
		}
		seen := make([]bool, n)
		stack := append([]int(nil), edges[i]...)
		for len(stack) > 0 {
			x := stack[len(stack)-1]
			stack = stack[:len(stack)-1]
			if g.Nodes[x].Memo || g.Nodes[x].Op == "memo" {
				continue
			}
			if x == i {
				a.Unguarded = true
				break
			}
			if seen[x] {
				continue
			}
			seen[x] = true
			stack = append(stack, edges[x]...)
		}
	}
	// node i is left-recursive iff i reaches i
	for i := 0; i < n; i++ {
		seen := make([]bool, n)
		stack := append([]int(nil), edges[i]...)
		for len(stack) > 0 {
			x := stack[len(stack)-1]
			stack = stack[:len(stack)-1]
			if x == i {
				a.LeftRec[i] = true
				a.AnyLeft = true
				break
			}
			if seen[x] {
				continue
			}
			seen[x] = true
			stack = append(stack, edges[x]...)
		}
	}
	return a
}

// reachable returns the node indexes reachable from the root.
func (g *Grammar) reachable() []bool {
	seen := make([]bool, len(g.Nodes))
	stack := []int{g.Root}
	for len(stack) > 0 {
		x := stack[len(stack)-1]
		stack = stack[:len(stack)-1]
		if seen[x] {
			continue
		}
		seen[x] = true
		stack = append(stack, g.Nodes[x].Kids...)
	}
	return seen
}

// ---- generation -------------------------------------------------------------------------

type genOpts struct {
	MaxNodes   int
	Guards     bool   // panicking user leaves and a user guard combinator that recovers from them
	Alphabet   string // terminal characters
	Trims      bool
	LeftRec    bool // allow left-recursive cycles (through memoised targets only)
	MemoChance int  // percent
	Names      bool
	Rich       bool // all literal terminals (C14)
	User       bool // user-supplied leaf parsers with abort points (C14)
	Prebuilt   bool // pre-built positioned custom errors in the graph (C14)
}

type gen struct {
	r     *Rand
	o     *genOpts
	g     *Grammar
	stack []int // ancestors of the node under construction
}

func (x *gen) leaf() int {
	r := x.r
	var n GNode
	switch {
	case x.o.Rich && r.Chance(1, 3):
		ops := []string{"int", "float", "str", "char", "bool", "nil", "word", "regexp", "dur"}
		n.Op = ops[r.Intn(len(ops))]
		if n.Op == "word" {
			n.Arg = []string{"ab", "a", "true"}[r.Intn(3)]
		}
	case r.Chance(1, 10):
		n.Op = "empty"
		if r.Chance(1, 3) {
			n.Op = "end" // parser.End() as an ordinary element (zero width, only at the end of the input)
		}
	case r.Chance(1, 4):
		n.Op = "op"
		l := r.Range(1, 2)
		for i := 0; i < l; i++ {
			n.Arg += string(r.Pick(x.o.Alphabet))
		}
	default:
		n.Op = "rune"
		if x.o.User && r.Chance(1, 3) {
			n.Op = "urune"
		} else if r.Chance(1, 8) {
			if x.o.Guards && r.Chance(1, 2) {
				n.Op = "upanic" // a third-party leaf that panics on the other letter
				n.Arg = string(r.Pick("ab"))
				x.g.Nodes = append(x.g.Nodes, n)
				return len(x.g.Nodes) - 1
			}
			n.Op = "unode" // a user-defined node type flows through the combinators
			if r.Chance(1, 3) {
				n.Op = "unode2"
			}
		}
		n.Arg = string(r.Pick(x.o.Alphabet))
		if x.o.Trims && r.Chance(1, 12) {
			n.Arg = []string{"\n", " "}[r.Intn(2)] // a terminal that consumes whitespace itself
		}
	}
	x.g.Nodes = append(x.g.Nodes, n)
	return len(x.g.Nodes) - 1
}

func (x *gen) node(depth int) int {
	r := x.r
	g := x.g
	if len(g.Nodes) >= x.o.MaxNodes || depth > 5 || r.Chance(depth, depth+4) {
		return x.leaf()
	}
	// share an existing node (DAG) or refer back to an ancestor (recursion)
	if len(g.Nodes) > 2 && r.Chance(1, 4) {
		// prefer sharing a memoised node: that is what produces cache hits
		var memo []int
		for i, n := range g.Nodes {
			if n.Memo {
				memo = append(memo, i)
			}
		}
		if len(memo) > 0 && r.Chance(2, 3) {
			return memo[r.Intn(len(memo))]
		}
		return r.Intn(len(g.Nodes))
	}
	idx := len(g.Nodes)
	g.Nodes = append(g.Nodes, GNode{})
	x.stack = append(x.stack, idx)
	var n GNode
	if len(x.stack) > 1 && r.Chance(1, 9) {
		n.Op = "ref"
		n.Kids = []int{x.stack[r.Intn(len(x.stack)-1)]}
	} else {
		ops := []string{"seq", "seq", "seq", "any", "any", "choice", "opt", "many", "many1", "sepby", "sepby1", "seqtry", "seqfoa", "single", "suppress", "fwrap"}
		if r.Chance(1, 3) {
			ops = append(ops, "memo") // another Memoize around the operand (which may be memoised itself)
		}
		if x.o.Guards {
			ops = append(ops, "guard", "guard")
		}
		if x.o.Trims {
			ops = append(ops, "ltrim", "rtrim", "rtrim")
		}
		n.Op = ops[r.Intn(len(ops))]
		nk := 1
		switch n.Op {
		case "seq", "seqtry", "seqfoa":
			nk = r.Range(1, 3)
			if r.Chance(1, 6) {
				n.Tok = fmt.Sprintf("T%d", idx)
			}
			if r.Chance(1, 6) {
				n.Arg = "single"
			} else if r.Chance(1, 8) {
				n.Arg = "custom" // user-supplied result handler
			}
			if n.Arg == "single" && n.Tok == "" && r.Chance(1, 2) {
				n.Tok = fmt.Sprintf("T%d", idx)
			}
		case "any", "choice":
			nk = r.Range(2, 3)
			if r.Chance(1, 25) {
				// a wide alternative list (size-dependent slice growth: 17, 33, ... elements)
				wide := r.Range(9, 40)
				for j := 0; j < wide; j++ {
					n.Kids = append(n.Kids, x.leaf())
				}
				nk = 1
			}
		case "sepby", "sepby1":
			nk = 2
		case "ltrim", "rtrim":
			n.Arg = fmt.Sprint(r.Intn(4))
		}
		for j := 0; j < nk; j++ {
			n.Kids = append(n.Kids, x.node(depth+1))
		}
		if x.o.Names && r.Chance(1, 5) {
			n.Name = fmt.Sprintf("n%d", idx)
			if x.o.Prebuilt && r.Chance(1, 4) {
				// a pre-built positioned custom error. Only where a library panic is an
				// observation (C14): such an error carries a position of its own, and
				// RightTrim panics on one that lies outside the parsed file
				n.Name = "!" + n.Name
			}
		}
	}
	if r.Chance(x.o.MemoChance, 100) {
		n.Memo = true
	}
	x.stack = x.stack[:len(x.stack)-1]
	g.Nodes[idx] = n
	return idx
}

// genGrammar draws a grammar that satisfies the premises of the properties: repetition
// operands consume input; without LeftRec no left-recursive cycle exists, with LeftRec
// every node on a left-recursive cycle... has a memoised node on that cycle (we memoise
// every left-recursive node).
func genGrammar(r *Rand, o *genOpts) *Grammar {
	for try := 0; try < 40; try++ {
		x := &gen{r: r, o: o, g: &Grammar{}}
		x.g.Root = x.node(0)
		a := x.g.analyze()
		if a.BadRep {
			continue
		}
		if a.AnyLeft {
			if !o.LeftRec {
				continue
			}
			for i := range x.g.Nodes {
				if a.LeftRec[i] && x.g.Nodes[i].Op != "ref" {
					x.g.Nodes[i].Memo = true
				}
			}
		}
		if len(x.g.Nodes) < 2 {
			continue
		}
		return x.g
	}
	// fallback: a+ b?
	return &Grammar{Nodes: []GNode{{Op: "seq", Kids: []int{1, 2}}, {Op: "many1", Kids: []int{3}}, {Op: "opt", Kids: []int{4}}, {Op: "rune", Arg: "a"}, {Op: "rune", Arg: "b"}}, Root: 0}
}

// sample draws a string from (an approximation of) the grammar's language.
func (g *Grammar) sample(r *Rand, i, depth int, sb *strings.Builder) {
	if sb.Len() > 24 || depth > 12 {
		return
	}
	nd := &g.Nodes[i]
	ws := func(mode string) {
		switch mode {
		case "0":
		case "1":
			sb.WriteString([]string{"", " ", "  "}[r.Intn(3)])
		case "3":
			sb.WriteString([]string{"\n", " \n", "\n ", "\r\n"}[r.Intn(4)])
		default:
			sb.WriteString([]string{"", " ", "\n", " \n ", "\r\n", "\t"}[r.Intn(6)])
		}
	}
	switch nd.Op {
	case "rune", "urune", "unode", "unode2", "upanic", "op", "word":
		sb.WriteString(nd.Arg)
	case "int":
		sb.WriteString([]string{"1", "42", "-7", "0x1f", "012"}[r.Intn(5)])
	case "float":
		sb.WriteString([]string{"1.5", "-0.25", "2.0e3"}[r.Intn(3)])
	case "str":
		sb.WriteString([]string{`"ab"`, `""`, "`a b`", `"a\nb"`, `"héllo"`, `"naïve"`, `"ü"`, `"x\ty"`, `"C:\\new\\t"`, `"\\"`}[r.Intn(10)])
	case "char":
		sb.WriteString([]string{`'a'`, `'\n'`, `'b'`}[r.Intn(3)])
	case "bool":
		sb.WriteString([]string{"true", "false"}[r.Intn(2)])
	case "nil":
		sb.WriteString("nil")
	case "regexp":
		sb.WriteString([]string{"ab", "a", "bba"}[r.Intn(3)])
	case "dur":
		sb.WriteString([]string{"1h", "5m30s", "1.5s"}[r.Intn(3)])
	case "empty", "end":
	case "seq", "sentence":
		for _, k := range nd.Kids {
			g.sample(r, k, depth+1, sb)
		}
	case "seqtry":
		m := r.Range(1, len(nd.Kids))
		for _, k := range nd.Kids[:m] {
			g.sample(r, k, depth+1, sb)
		}
	case "seqfoa":
		m := 1
		if r.Bool() {
			m = len(nd.Kids)
		}
		for _, k := range nd.Kids[:m] {
			g.sample(r, k, depth+1, sb)
		}
	case "any", "choice":
		g.sample(r, nd.Kids[r.Intn(len(nd.Kids))], depth+1, sb)
	case "opt":
		if r.Bool() {
			g.sample(r, nd.Kids[0], depth+1, sb)
		}
	case "many", "many1", "sepby", "sepby1":
		lo := 0
		if nd.Op == "many1" || nd.Op == "sepby1" {
			lo = 1
		}
		m := r.Range(lo, 3)
		if depth > 4 {
			m = lo
		}
		for j := 0; j < m; j++ {
			if j > 0 && len(nd.Kids) == 2 {
				g.sample(r, nd.Kids[1], depth+1, sb)
			}
			g.sample(r, nd.Kids[0], depth+1, sb)
		}
	case "ltrim":
		ws(nd.Arg)
		g.sample(r, nd.Kids[0], depth+1, sb)
	case "rtrim":
		g.sample(r, nd.Kids[0], depth+1, sb)
		ws(nd.Arg)
	case "single", "suppress", "memo", "fwrap", "guard":
		g.sample(r, nd.Kids[0], depth+1, sb)
	case "ref":
		if depth < 7 {
			g.sample(r, nd.Kids[0], depth+1, sb)
		}
	}
}

// genInput: a sampled sentence, possibly mutated, or noise.
func (g *Grammar) genInput(r *Rand, alphabet string, maxLen int) string {
	var sb strings.Builder
	if r.Chance(9, 10) {
		g.sample(r, g.Root, 0, &sb)
	}
	s := []byte(sb.String())
	muts := 0
	switch r.Intn(4) {
	case 0:
		muts = 1
	case 1:
		muts = r.Range(1, 3)
	}
	noise := alphabet + alphabet + " \n"
	for ; muts > 0; muts-- {
		switch r.Intn(3) {
		case 0:
			p := r.Intn(len(s) + 1)
			s = append(s[:p], append([]byte{r.Pick(noise)}, s[p:]...)...)
		case 1:
			if len(s) > 0 {
				p := r.Intn(len(s))
				s = append(s[:p], s[p+1:]...)
			}
		case 2:
			if len(s) > 0 {
				s[r.Intn(len(s))] = r.Pick(noise)
			}
		}
	}
	if len(s) > maxLen {
		s = s[:maxLen]
	}
	return string(s)
}

// ---- rendering ----------------------------------------------------------------------------

type renderer struct {
	sb     strings.Builder
	budget int
	over   bool
}

func (r *renderer) node(n parsley.Node) {
	if r.sb.Len() > r.budget {
		r.over = true
		return
	}
	switch x := n.(type) {
	case nil:
		r.sb.WriteString("<nil>")
	case ast.NodeList:
		r.sb.WriteString("[")
		for i, e := range x {
			if i > 0 {
				r.sb.WriteString(" | ")
			}
			r.node(e)
		}
		r.sb.WriteString("]")
	case ast.EmptyNode:
		fmt.Fprintf(&r.sb, "E@%d", x.Pos())
	case parsley.NonTerminalNode:
		fmt.Fprintf(&r.sb, "%s{%d..%d", x.Token(), x.Pos(), x.ReaderPos())
		for _, c := range x.Children() {
			r.sb.WriteString(" ")
			r.node(c)
		}
		r.sb.WriteString("}")
	case parsley.LiteralNode:
		val := x.Value() // exactly one read per rendering
		fmt.Fprintf(&r.sb, "%s(%T:%v)%d..%d", x.Token(), val, val, x.Pos(), x.ReaderPos())
	default:
		fmt.Fprintf(&r.sb, "%s<%T>%d..%d", x.Token(), x, x.Pos(), x.ReaderPos())
	}
}

func renderNode(n parsley.Node, budget int) (string, bool) {
	r := &renderer{budget: budget}
	r.node(n)
	return r.sb.String(), r.over
}

func renderErr(e parsley.Error) string {
	if e == nil {
		return "-"
	}
	return fmt.Sprintf("%d:%s", e.Pos(), e.Error())
}

func renderCP(cp data.IntSet) string {
	var sb strings.Builder
	cp.Each(func(v int) { fmt.Fprintf(&sb, "%d,", v) })
	return sb.String()
}

// ---- clone-before-trim shim -------------------------------------------------------------------

type cloner struct{ p parsley.Parser }

func (c cloner) Parse(ctx *parsley.Context, lrc data.IntMap, pos parsley.Pos) (parsley.Node, data.IntSet, parsley.Error) {
	n, cp, err := c.p.Parse(ctx, lrc, pos)
	if n != nil {
		if cl, ok := cloneTop(n); ok {
			n = cl
		}
	}
	return n, cp, err
}

// cloneTop copies the node objects RightTrim would write to (the node itself, or every
// element of a list); children are shared, RightTrim never touches them.
func cloneTop(n parsley.Node) (parsley.Node, bool) {
	switch x := n.(type) {
	case ast.NodeList:
		out := make(ast.NodeList, len(x))
		for i, e := range x {
			c, ok := cloneTop(e)
			if !ok {
				return nil, false
			}
			out[i] = c
		}
		return out, true
	case ast.EmptyNode, parser.EndNode:
		return x, true
	}
	// any pointer node: a shallow copy of the struct (children and values are shared,
	// RightTrim only writes the node's own reader position)
	rv := reflect.ValueOf(n)
	if rv.Kind() == reflect.Ptr && !rv.IsNil() && rv.Elem().Kind() == reflect.Struct {
		c := reflect.New(rv.Elem().Type())
		c.Elem().Set(rv.Elem())
		if cn, ok := c.Interface().(parsley.Node); ok {
			return cn, true
		}
	}
	return nil, false
}

// ---- shrinking ------------------------------------------------------------------------------

func (g *Grammar) clone() *Grammar {
	c := &Grammar{Root: g.Root, Nodes: make([]GNode, len(g.Nodes))}
	for i, n := range g.Nodes {
		c.Nodes[i] = n
		c.Nodes[i].Kids = append([]int(nil), n.Kids...)
	}
	return c
}

// compact drops unreachable nodes and renumbers.
func (g *Grammar) compact() *Grammar {
	seen := g.reachable()
	idx := make([]int, len(g.Nodes))
	c := &Grammar{}
	for i := range g.Nodes {
		if seen[i] {
			idx[i] = len(c.Nodes)
			c.Nodes = append(c.Nodes, g.Nodes[i])
		}
	}
	for i := range c.Nodes {
		ks := make([]int, len(c.Nodes[i].Kids))
		for j, k := range c.Nodes[i].Kids {
			ks[j] = idx[k]
		}
		c.Nodes[i].Kids = ks
	}
	c.Root = idx[g.Root]
	return c
}

// shrinkGrammarOpt proposes simpler grammars that still satisfy the generator's premises.
func shrinkGrammarOpt(g *Grammar, allowLeft bool) []*Grammar {
	var out []*Grammar
	add := func(c *Grammar) {
		c = c.compact()
		if c.valid() != nil {
			return
		}
		a := c.analyze()
		if a.BadRep || (a.AnyLeft && !allowLeft) {
			return
		}
		if a.Unguarded {
			return
		}
		out = append(out, c)
	}
	seen := g.reachable()
	// root := a child of the root
	for _, k := range g.Nodes[g.Root].Kids {
		c := g.clone()
		c.Root = k
		add(c)
	}
	for i := range g.Nodes {
		if !seen[i] {
			continue
		}
		n := g.Nodes[i]
		if !isLeafOp(n.Op) {
			// hoist a kid in place of the node
			for _, k := range n.Kids {
				if k == i {
					continue
				}
				c := g.clone()
				for x := range c.Nodes {
					for j := range c.Nodes[x].Kids {
						if c.Nodes[x].Kids[j] == i {
							c.Nodes[x].Kids[j] = k
						}
					}
				}
				if c.Root == i {
					c.Root = k
				}
				add(c)
			}
			// replace by a terminal
			c := g.clone()
			c.Nodes[i] = GNode{Op: "rune", Arg: "a"}
			add(c)
			// drop one kid of an n-ary node
			switch n.Op {
			case "seq", "seqtry", "seqfoa", "any", "choice":
				if len(n.Kids) > 1 {
					for j := range n.Kids {
						c := g.clone()
						c.Nodes[i].Kids = append(append([]int(nil), n.Kids[:j]...), n.Kids[j+1:]...)
						add(c)
					}
				}
			}
		} else if n.Op != "rune" || n.Arg != "a" {
			c := g.clone()
			c.Nodes[i] = GNode{Op: "rune", Arg: "a"}
			add(c)
		}
		if n.Memo {
			c := g.clone()
			c.Nodes[i].Memo = false
			add(c)
		}
		if n.Name != "" {
			c := g.clone()
			c.Nodes[i].Name = ""
			add(c)
		}
		if n.Arg == "single" {
			c := g.clone()
			c.Nodes[i].Arg = ""
			add(c)
		}
	}
	return out
}

func shrinkGrammar(g *Grammar) []*Grammar { return shrinkGrammarOpt(g, false) }


// hasRich: the grammar uses literal terminals beyond Rune / Op / Empty. Their pinned-tree
// panics on malformed literals (property C08, not judged here) are discarded, not judged.
func hasRich(g *Grammar) bool {
	for _, n := range g.Nodes {
		switch n.Op {
		case "int", "float", "str", "char", "bool", "nil", "word", "regexp", "dur":
			return true
		}
	}
	return false
}

// translit rewrites the terminal alphabet of a grammar: every occurrence of the byte from
// in a rune / operator terminal becomes the (multi-byte) string to. With the same
// replacement applied to the input this is the same grammar over a non-ASCII alphabet.
func (g *Grammar) translit(from byte, to string) {
	for i := range g.Nodes {
		switch n := &g.Nodes[i]; n.Op {
		case "rune", "urune", "unode", "unode2", "op":
			n.Arg = strings.Replace(n.Arg, string(from), to, -1)
		}
	}
}

// stretchWs replaces one whitespace run of an input (if it has one) by a long or a
// multi-line one: 256-400 blanks, blank lines, or a long run with new lines in it.
func stretchWs(r *Rand, in string) string {
	isWs := func(b byte) bool { return b == ' ' || b == '\t' || b == '\n' }
	var starts []int
	for i := 0; i < len(in); i++ {
		if isWs(in[i]) && (i == 0 || !isWs(in[i-1])) {
			starts = append(starts, i)
		}
	}
	if len(starts) == 0 {
		return in
	}
	s := starts[r.Intn(len(starts))]
	e := s
	for e < len(in) && isWs(in[e]) {
		e++
	}
	var run string
	switch r.Intn(4) {
	case 0:
		run = strings.Repeat(" ", r.Range(254, 400))
	case 1:
		run = []string{"\n\n", "\n \n ", " \n\n", "\n\n\n", "\n\t\n"}[r.Intn(5)]
	case 2:
		run = strings.Repeat(" ", r.Range(100, 300)) + "\n" + strings.Repeat("\t", r.Range(1, 200))
	default:
		run = strings.Repeat(" \t", r.Range(128, 160))
	}
	return in[:s] + run + in[e:]
}

// panicInLibrary: the innermost non-runtime frame of the panic being recovered lies in the
// library under test (not in the harness or the simulator runtime). Must be called from the
// deferred function that recovered.
func panicInLibrary() bool {
	lines := strings.Split(string(debug.Stack()), "\n")
	at := -1
	for i, l := range lines {
		if strings.HasPrefix(l, "panic(") {
			at = i
		}
	}
	if at < 0 {
		return false
	}
	for i := at + 2; i < len(lines); i += 2 {
		fn := lines[i]
		if strings.HasPrefix(fn, "runtime.") || strings.HasPrefix(fn, "runtime/") || strings.HasPrefix(fn, "type:.") || strings.HasPrefix(fn, "type..") {
			continue // runtime helpers and compiler-generated equality / hash functions
		}
		return strings.HasPrefix(fn, "github.com/opsidian/parsley/") && !strings.Contains(fn, "/zzsimrt.")
	}
	return false
}
