// Command harness is the simulation harness for opsidian/parsley. It is compiled by
// ./check against an instrumented scratch copy of /repo's working tree (twice: plain and
// -race) and plays every role: driver, worker, replayer and minimiser.
//
//	harness drive  <id> <tier>                     orchestrate a whole check (used by ./check)
//	harness work   <id> -seed S -worker W ...      run a batch of seeded cases
//	harness replay <id> <case.json>                run one explicit case (no PRNG involved)
//	harness shrink <id> <case.json> <out.json>     delta-debug a failing case
//	harness emit   <id> -runseed X                 print the case a run seed generates
package main

import (
	"runtime/debug"
	"encoding/json"
	"flag"
	"fmt"
	"os"
	"runtime"
	"sort"
	"strings"
	"time"

	sim "github.com/opsidian/parsley/zzsimrt"
)

// Case is a property-specific, JSON-serialisable description of one simulated run:
// workload, operations, fault points and (after execution) the explicit schedule.
type Case interface{}

// Verdict is what running one case produced.
type Verdict struct {
	Violation bool   `json:"violation"`
	Class     string `json:"class,omitempty"`  // oracle + culprit kind; minimisation keeps it fixed
	Detail    string `json:"detail,omitempty"` // human-readable
	Known     string `json:"known,omitempty"`  // key of the known finding this is attributed to
	Discard   string `json:"discard,omitempty"`
	// measured reach
	Nontrivial  bool             `json:"-"`
	Fingerprint uint64           `json:"-"`
	Probes      map[string]int64 `json:"-"`
	Steps       int64            `json:"-"`
	Faults      map[string]int64 `json:"-"`
	Trace       uint64           `json:"-"` // hash of the full (task, site) event sequence of the run
}

// Plan tells the driver how to run one group of workers.
type Plan struct {
	Name    string
	Variant int
	Race    bool
	Workers int
	Runs    int           // runs per worker
	MaxTime time.Duration // per worker
	Cold    bool          // one run per process, many processes
	Size    int           // size class handed to the generator
}

type Prop interface {
	Level() string
	Rule() string
	Plans(tier string) []Plan
	Gen(r *Rand, pl *Plan) Case
	Decode(b []byte) (Case, error)
	Run(c Case) Verdict
	Shrink(c Case) []Case
	Components() map[string]interface{}
	Assumptions() []string
}

var props = map[string]Prop{}

func usage() {
	fmt.Fprintln(os.Stderr, "usage: harness drive|work|replay|shrink|emit <id> ...")
	os.Exit(2)
}

func main() {
	if runtime.GOARCH != "amd64" {
		fmt.Fprintln(os.Stderr, "harness: the invisible handoff relies on amd64 total store order")
		os.Exit(2)
	}
	if len(os.Args) < 3 {
		usage()
	}
	// A library change that lets a recursion run away must end as an exhausted step budget
	// (a verdict), not as Go's fatal "stack overflow" (a dead worker): with the default step
	// budget the runaway stack stays below ~1.5 GB, so the limit is raised above that.
	debug.SetMaxStack(3 << 30)
	cmd, id := os.Args[1], os.Args[2]
	if cmd == "selftest" {
		os.Exit(selftest(os.Args[2:]))
	}
	p, ok := props[id]
	if !ok {
		fmt.Fprintf(os.Stderr, "harness: unknown property %q (have %v)\n", id, propIDs())
		os.Exit(2)
	}
	switch cmd {
	case "drive":
		if len(os.Args) < 4 {
			usage()
		}
		os.Exit(drive(id, p, os.Args[3]))
	case "work":
		os.Exit(work(id, p, os.Args[3:]))
	case "replay":
		if len(os.Args) < 4 {
			usage()
		}
		os.Exit(replay(id, p, os.Args[3], os.Args[4:]))
	case "shrink":
		if len(os.Args) < 5 {
			usage()
		}
		os.Exit(shrinkCmd(id, p, os.Args[3], os.Args[4], os.Args[5:]))
	case "emit":
		os.Exit(emit(id, p, os.Args[3:]))
	default:
		usage()
	}
}

func propIDs() []string {
	var ids []string
	for k := range props {
		ids = append(ids, k)
	}
	sort.Strings(ids)
	return ids
}

// ---- worker ----------------------------------------------------------------------

type WorkerOut struct {
	Worker       int               `json:"worker"`
	Plan         string            `json:"plan"`
	Race         bool              `json:"race"`
	Runs         int               `json:"runs"`
	Nontrivial   int               `json:"nontrivial"`
	Discards     map[string]int    `json:"discards"`
	Known        map[string]int    `json:"known"`
	Probes       map[string]int64  `json:"probes"`
	Faults       map[string]int64  `json:"faults"`
	Steps        int64             `json:"steps"`
	Fingerprints []uint64          `json:"fingerprints"`
	Samples      []json.RawMessage `json:"samples"`
	Violations   []ViolationRec    `json:"violations"`
	WallS        float64           `json:"wall_s"`
	SitesHit     int               `json:"sites_hit"`
	SitesTotal   int               `json:"sites_total"`
	SiteBits     []int             `json:"site_bits"`
	PairCount    int64             `json:"pair_count"`
	HotSwitches  int64             `json:"hot_switches"`
	MapRanges    int64             `json:"map_ranges"`
	MapPermuted  int64             `json:"map_permuted"`
	MapUnctl     int64             `json:"map_uncontrolled"`
	Warnings     []string          `json:"warnings"`
	Tainted      bool              `json:"tainted"`
	Digest       uint64            `json:"digest"` // fold of every run's fingerprint, step count, trace hash and verdict
	DetChecked   int               `json:"det_checked"`
	DetMismatch  int               `json:"det_mismatch"`
	DetWarm      int               `json:"det_warm"`
}

type ViolationRec struct {
	RunSeed  uint64 `json:"run_seed"`
	Class    string `json:"class"`
	Detail   string `json:"detail"`
	CaseFile string `json:"case_file"`
	Idx      int    `json:"idx"` // index of the run within its worker
}

func runSeed(base uint64, worker, idx int) uint64 {
	return mix(mix(base, uint64(worker)+0x1000), uint64(idx)+1)
}

// safeRun executes a case and converts a Go panic inside the oracle or library (which is
// not an observation made by a task) into a loud harness error.
func safeRun(p Prop, c Case) (v Verdict) {
	return p.Run(c)
}

func work(id string, p Prop, args []string) int {
	fs := flag.NewFlagSet("work", flag.ExitOnError)
	seed := fs.Uint64("seed", 1, "")
	worker := fs.Int("worker", 0, "")
	runs := fs.Int("runs", 100, "")
	maxtime := fs.Duration("maxtime", time.Minute, "")
	out := fs.String("out", "", "output directory")
	planName := fs.String("plan", "", "")
	variant := fs.Int("variant", 0, "")
	size := fs.Int("size", 0, "")
	race := fs.Bool("race", false, "built with -race")
	progress := fs.String("progress", "", "file that receives RUN <seed> lines (race workers)")
	maxViol := fs.Int("maxviol", 1, "a violation may taint process-wide state: stop at the first one")
	fs.Parse(args)
	pl := &Plan{Name: *planName, Variant: *variant, Race: *race, Size: *size, Cold: strings.HasSuffix(*planName, "-cold")}
	t0 := time.Now()
	o := &WorkerOut{Worker: *worker, Plan: *planName, Race: *race, Discards: map[string]int{}, Known: map[string]int{}, Probes: map[string]int64{}, Faults: map[string]int64{}}
	var pf *os.File
	if *progress != "" {
		var err error
		pf, err = os.OpenFile(*progress, os.O_CREATE|os.O_WRONLY|os.O_TRUNC, 0644)
		if err != nil {
			fmt.Fprintln(os.Stderr, "harness work:", err)
			return 2
		}
		defer pf.Close()
	}
	fpset := map[uint64]struct{}{}
	for i := 0; i < *runs; i++ {
		if time.Since(t0) > *maxtime {
			break
		}
		rs := runSeed(*seed, *worker, i)
		if pf != nil {
			fmt.Fprintf(pf, "RUN %d\n", rs)
		}
		c := p.Gen(NewRand(rs), pl)
		v := p.Run(c)
		o.Runs++
		o.Steps += v.Steps
		o.Digest = fnvU(fnvU(fnvU(fnvU(o.Digest, v.Fingerprint), uint64(v.Steps)), v.Trace), uint64(len(v.Class))<<8|uint64(len(v.Discard)))
		for k, n := range v.Probes {
			o.Probes[k] += n
		}
		for k, n := range v.Faults {
			o.Faults[k] += n
		}
		if sim.Tainted != 0 && !v.Violation {
			// a task had to be stopped for good while it held a lock of the library: the lock
			// stays taken, this process cannot judge further cases
			o.Discards["tainted:lock-held-by-a-stopped-task"]++
			o.Tainted = true
			break
		}
		if v.Discard != "" {
			o.Discards[v.Discard]++
			if strings.HasPrefix(v.Discard, "taint") {
				o.Tainted = true
				break
			}
			continue
		}
		if v.Nontrivial {
			o.Nontrivial++
			if len(fpset) < 400000 {
				fpset[v.Fingerprint] = struct{}{}
			}
		}
		if len(o.Samples) < 3 && v.Nontrivial && (i%7 == 0 || len(o.Samples) == 0) {
			if b, err := json.Marshal(c); err == nil && len(b) < 6000 {
				o.Samples = append(o.Samples, b)
			}
		}
		// determinism spot check: the same case run again in this process must produce
		// the same verdict and the same event fingerprint
		if i%97 == 3 && !v.Violation && v.Discard == "" {
			v2 := p.Run(c)
			o.DetChecked++
			if v2.Violation && v2.Known == "" && *out != "" {
				// the same case, executed a second time in this process, violates the property:
				// behaviour depends on state the first execution left behind. The replay file
				// is the case twice (explicit, executed in order in one fresh process).
				rec := ViolationRec{RunSeed: rs, Class: v2.Class, Detail: "on the second execution of the same case in one process: " + v2.Detail, Idx: i}
				rec.CaseFile = fmt.Sprintf("%s/viol-%s-%s-w%d-rerun.json", *out, id, *planName, *worker)
				b1, _ := json.Marshal(c)
				writeJSON(rec.CaseFile, map[string]interface{}{"multi": []json.RawMessage{b1, b1}})
				o.Violations = append(o.Violations, rec)
				break
			}
			same := func(a, b *Verdict) bool {
				return a.Fingerprint == b.Fingerprint && a.Violation == b.Violation && a.Discard == b.Discard && a.Trace == b.Trace && a.Steps == b.Steps
			}
			if !same(&v, &v2) {
				// A third execution tells a warm-up effect of the library (state a first use
				// leaves in the process - a correctly locked cache, an interning table; the
				// second and third executions then agree) from behaviour that is not a function
				// of the case at all.
				v3 := p.Run(c)
				if same(&v2, &v3) {
					o.DetWarm++
				} else {
					o.DetMismatch++
				}
			}
		}
		if v.Known != "" {
			o.Known[v.Known]++
		}
		if v.Violation && v.Known == "" {
			rec := ViolationRec{RunSeed: rs, Class: v.Class, Detail: v.Detail, Idx: i}
			if *out != "" {
				rec.CaseFile = fmt.Sprintf("%s/viol-%s-%s-w%d-%d.json", *out, id, *planName, *worker, len(o.Violations))
				writeJSON(rec.CaseFile, c)
			}
			o.Violations = append(o.Violations, rec)
			if len(o.Violations) >= *maxViol {
				break
			}
		}
	}
	for fp := range fpset {
		o.Fingerprints = append(o.Fingerprints, fp)
	}
	sort.Slice(o.Fingerprints, func(i, j int) bool { return o.Fingerprints[i] < o.Fingerprints[j] })
	o.WallS = time.Since(t0).Seconds()
	o.SitesTotal = sim.NumSites
	for i := 1; i <= sim.NumSites; i++ {
		if sim.SiteHit[i] > 0 {
			o.SitesHit++
			o.SiteBits = append(o.SiteBits, i)
		}
	}
	o.PairCount = sim.PairCount
	o.HotSwitches = sim.HotSwitches
	o.MapRanges, o.MapPermuted, o.MapUnctl = sim.MapRanges, sim.MapPermuted, sim.MapUncontrolled
	o.Warnings = sim.Warnings
	if *out != "" {
		writeJSON(fmt.Sprintf("%s/worker-%s-%d.json", *out, *planName, *worker), o)
	} else {
		b, _ := json.MarshalIndent(o, "", " ")
		fmt.Println(string(b))
	}
	return 0
}

func writeJSON(path string, v interface{}) {
	b, err := json.MarshalIndent(v, "", " ")
	if err != nil {
		fmt.Fprintln(os.Stderr, "harness: marshal:", err)
		os.Exit(2)
	}
	if err := os.WriteFile(path, append(b, '\n'), 0644); err != nil {
		fmt.Fprintln(os.Stderr, "harness: write:", err)
		os.Exit(2)
	}
}

// ---- replay / emit / shrink ---------------------------------------------------------

func loadCase(p Prop, path string) (Case, error) {
	b, err := os.ReadFile(path)
	if err != nil {
		return nil, err
	}
	return p.Decode(b)
}

// replay: exit 0 = property held on this case, 1 = violation (prints RESULT line),
// 66 = race report (from the race runtime), 2 = trouble.
func replay(id string, p Prop, path string, args []string) int {
	raw, err := os.ReadFile(path)
	if err != nil {
		fmt.Fprintln(os.Stderr, "harness replay:", err)
		return 2
	}
	var multi struct {
		Multi []json.RawMessage `json:"multi"`
	}
	var v Verdict
	if json.Unmarshal(raw, &multi) == nil && len(multi.Multi) > 0 {
		// several cases executed in order in this one process (state built by earlier
		// runs is part of the scenario); the last verdict counts
		for _, b := range multi.Multi {
			c, err := p.Decode(b)
			if err != nil {
				fmt.Fprintln(os.Stderr, "harness replay:", err)
				return 2
			}
			v = p.Run(c)
			if v.Violation {
				break
			}
		}
	} else {
		c, err := p.Decode(raw)
		if err != nil {
			fmt.Fprintln(os.Stderr, "harness replay:", err)
			return 2
		}
		v = p.Run(c)
	}
	b, _ := json.Marshal(v)
	fmt.Printf("RESULT %s\n", b)
	if v.Discard != "" {
		fmt.Printf("DISCARD %s\n", v.Discard)
		return 0
	}
	if v.Violation {
		if v.Known != "" {
			fmt.Printf("KNOWN %s class=%s %s\n", v.Known, v.Class, v.Detail)
			return 3
		}
		fmt.Printf("VIOLATED property=%s class=%s %s\n", id, v.Class, v.Detail)
		return 1
	}
	return 0
}

func emit(id string, p Prop, args []string) int {
	fs := flag.NewFlagSet("emit", flag.ExitOnError)
	rs := fs.Uint64("runseed", 1, "")
	variant := fs.Int("variant", 0, "")
	size := fs.Int("size", 0, "")
	planName := fs.String("plan", "", "")
	out := fs.String("out", "", "")
	norun := fs.Bool("norun", false, "print the generated case without executing it")
	fs.Parse(args)
	pl := &Plan{Name: *planName, Variant: *variant, Size: *size, Cold: strings.HasSuffix(*planName, "-cold")}
	c := p.Gen(NewRand(*rs), pl)
	if !*norun {
		p.Run(c) // fills in the explicit schedule
	}
	if *out != "" {
		writeJSON(*out, c)
	} else {
		b, _ := json.MarshalIndent(c, "", " ")
		fmt.Println(string(b))
	}
	return 0
}
