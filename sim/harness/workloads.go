package main

import (
	"fmt"
	"strings"

	"github.com/opsidian/parsley/ast"
	"github.com/opsidian/parsley/combinator"
	"github.com/opsidian/parsley/data"
	"github.com/opsidian/parsley/examples/json/json"
	"github.com/opsidian/parsley/parser"
	"github.com/opsidian/parsley/parsley"
	"github.com/opsidian/parsley/text"
	"github.com/opsidian/parsley/text/terminal"
	sim "github.com/opsidian/parsley/zzsimrt"
)

// GraphSpec names a parser graph the harness can construct (and construct again as a
// twin for the solo baseline).
type GraphSpec struct {
	Kind   string   `json:"kind"` // json | arith | pb | pair | tokens | grammar
	G      *Grammar `json:"g,omitempty"`
	Interp bool     `json:"interp,omitempty"`
	Order  []int    `json:"order,omitempty"`
	Churn  int      `json:"churn,omitempty"` // throw-away Memoize calls before construction
}

func selectI(i int) parsley.Interpreter {
	return ast.InterpreterFunc(func(userCtx interface{}, node parsley.NonTerminalNode) (interface{}, parsley.Error) {
		sim.AbortPoint()
		return parsley.EvaluateNode(userCtx, node.Children()[i])
	})
}

// arith: the classic left-recursive expression grammar with harness-owned interpreters.
func arithGraph() parsley.Parser {
	bin := ast.InterpreterFunc(func(userCtx interface{}, node parsley.NonTerminalNode) (interface{}, parsley.Error) {
		sim.AbortPoint()
		ch := node.Children()
		if len(ch) == 1 {
			return parsley.EvaluateNode(userCtx, ch[0])
		}
		a, err := parsley.EvaluateNode(userCtx, ch[0])
		if err != nil {
			return nil, err
		}
		b, err := parsley.EvaluateNode(userCtx, ch[2])
		if err != nil {
			return nil, err
		}
		x, y := a.(int64), b.(int64)
		switch ch[1].Token() {
		case "+":
			return x + y, nil
		case "-":
			return x - y, nil
		case "*":
			return x * y, nil
		default:
			if y == 0 {
				return nil, parsley.NewErrorf(ch[1].Pos(), "division by zero")
			}
			return x / y, nil
		}
	})
	var expr, term, factor parser.Func
	tok := func(p parsley.Parser) parsley.Parser { return text.LeftTrim(p, text.WsSpacesNl) }
	// a user-supplied leaf parser (abort point while the parse is in flight)
	integer := terminal.Integer(nil)
	userInt := parser.Func(func(ctx *parsley.Context, lrc data.IntMap, pos parsley.Pos) (parsley.Node, data.IntSet, parsley.Error) {
		sim.AbortPoint()
		return integer.Parse(ctx, lrc, pos)
	})
	factor = combinator.Memoize(combinator.Choice(
		tok(userInt),
		combinator.SeqOf(tok(terminal.Rune('(')), &expr, tok(terminal.Rune(')'))).Bind(selectI(1)),
	).Name("factor"))
	term = combinator.Memoize(combinator.Any(
		combinator.SeqOf(&term, tok(combinator.Choice(terminal.Rune('*'), terminal.Rune('/'))), &factor).Bind(bin),
		&factor,
	))
	expr = combinator.Memoize(combinator.Any(
		combinator.SeqOf(&expr, tok(combinator.Choice(terminal.Rune('+'), terminal.Rune('-'))), &term).Bind(bin),
		&term,
	))
	return combinator.Sentence(text.RightTrim(&expr, text.WsSpacesNl))
}

// pb: P -> P b | a
func pbGraph() parsley.Parser {
	var p parser.Func
	p = combinator.Memoize(combinator.Any(
		combinator.SeqOf(&p, terminal.Rune('b')).Bind(concatInterp),
		terminal.Rune('a'),
	).Name("P"))
	return combinator.Sentence(&p)
}

// pair: A -> B a | a ; B -> A b | b (indirect left recursion)
func pairGraph() parsley.Parser {
	var a, b parser.Func
	a = combinator.Memoize(combinator.Any(combinator.SeqOf(&b, terminal.Rune('a')).Bind(concatInterp), terminal.Rune('a')))
	b = combinator.Memoize(combinator.Any(combinator.SeqOf(&a, terminal.Rune('b')).Bind(concatInterp), terminal.Rune('b')))
	// the inner nonterminal is looked up again at the same position after the outer one
	// has returned (A ... '!' | B '?' | A)
	return combinator.Sentence(combinator.Any(
		combinator.SeqOf(&a, terminal.Rune('!')).Bind(concatInterp),
		combinator.SeqOf(&b, terminal.Rune('?')).Bind(concatInterp),
		&a,
	))
}

// mutual: two memoised rules, each directly AND mutually left-recursive, so that one Any
// sees two alternatives curtailed at the same position (their curtailing sets are merged):
// B -> B 'z' | A 'w' | 'n' ; A -> A 'x' | B 'y' | 'n'
func mutualGraph() parsley.Parser {
	var a, b parser.Func
	b = combinator.Memoize(combinator.Any(
		combinator.SeqOf(&b, terminal.Rune('z')).Bind(concatInterp),
		combinator.SeqOf(&a, terminal.Rune('w')).Bind(concatInterp),
		terminal.Rune('n'),
	))
	a = combinator.Memoize(combinator.Any(
		combinator.SeqOf(&a, terminal.Rune('x')).Bind(concatInterp),
		combinator.SeqOf(&b, terminal.Rune('y')).Bind(concatInterp),
		terminal.Rune('n'),
	))
	return combinator.Sentence(&a)
}

// tokens: every literal terminal behind named alternatives and all trim modes - the
// error paths (Name / ReturnError / IsNotFoundError) are where shared state used to live.
func tokensGraph() parsley.Parser {
	lt := func(p parsley.Parser, m text.WsMode) parsley.Parser { return text.LeftTrim(p, m) }
	// a user-supplied identifier parser consulting the keyword table of ITS context
	idRe := terminal.Regexp(nil, "ID", "identifier", "[a-z_]+", 0)
	userID := parser.Func(func(ctx *parsley.Context, lrc data.IntMap, pos parsley.Pos) (parsley.Node, data.IntSet, parsley.Error) {
		n, cp, err := idRe.Parse(ctx, lrc, pos)
		if err == nil {
			if v, ok := n.(parsley.LiteralNode); ok && ctx.IsKeyword(fmt.Sprint(v.Value())) {
				return nil, cp, parsley.NewErrorf(pos, "%v is a keyword", v.Value())
			}
		}
		return n, cp, err
	})
	tokenP := combinator.Choice(
		lt(terminal.Float(nil), text.WsSpaces),
		lt(terminal.Integer(nil), text.WsSpacesNl),
		lt(terminal.String(nil, true), text.WsSpacesNl),
		lt(terminal.Char(nil), text.WsSpaces),
		lt(terminal.Bool(nil, "true", "false"), text.WsSpacesNl),
		lt(terminal.Nil(nil, "nil"), text.WsSpacesNl),
		lt(terminal.TimeDuration(nil), text.WsSpaces),
		lt(terminal.Word(nil, "let", "let"), text.WsSpacesForceNl),
		text.RightTrim(terminal.Op("=="), text.WsNone),
		lt(userID, text.WsSpacesNl),
		lt(combinator.Any(terminal.Rune('+'), terminal.Rune('-')).Name("sign"), text.WsSpaces),
		lt(parser.ReturnError(terminal.Rune('#'), prebuiltErr("!hash")), text.WsSpaces),
		// a rarely taken branch with an expression that does not compile: the library panics
		// there (the caller recovers), alone and in company alike
		lt(combinator.SeqOf(terminal.Rune('~'), terminal.Regexp(nil, "BAD", "bad", "[a-", 0)), text.WsSpaces),
	).Name("token")
	return combinator.Sentence(text.RightTrim(combinator.Many(tokenP).Bind(concatInterp), text.WsSpacesNl))
}

func churn(n int) {
	for i := 0; i < n; i++ {
		combinator.Memoize(parser.Empty())
	}
}

func (s *GraphSpec) construct() parsley.Parser {
	churn(s.Churn)
	switch s.Kind {
	case "json":
		return combinator.Sentence(text.Trim(json.NewParser()))
	case "arith":
		return arithGraph()
	case "pb":
		return pbGraph()
	case "pair":
		return pairGraph()
	case "tokens":
		return tokensGraph()
	case "mutual":
		return mutualGraph()
	case "manyopt":
		// a repetition whose operand can match the empty string. On the unchanged tree this
		// does not terminate (the premise "repetition operands consume input" is the
		// user's obligation), so such cases run under a tiny step budget and are discarded;
		// a library that makes them terminate gets them checked like any other graph.
		return combinator.Sentence(combinator.Many(combinator.Optional(terminal.Rune('a'))).Bind(concatInterp))
	case "grammar":
		return build(s.G, &buildOpts{Memo: true, Interp: s.Interp, Order: s.Order}).Root
	}
	panic("unknown graph kind " + s.Kind)
}

// ---- input generators -------------------------------------------------------------------

func genJSON(r *Rand, depth int, sb *strings.Builder) {
	ws := func() {
		sb.WriteString([]string{"", "", " ", "\n", "  ", "\r\n", "\t"}[r.Intn(7)])
	}
	k := r.Intn(8)
	if depth > 3 {
		k = 2 + r.Intn(6)
	}
	switch k {
	case 0:
		sb.WriteString("[")
		n := r.Intn(4)
		for i := 0; i < n; i++ {
			if i > 0 {
				sb.WriteString(",")
			}
			ws()
			genJSON(r, depth+1, sb)
		}
		ws()
		sb.WriteString("]")
	case 1:
		sb.WriteString("{")
		n := r.Intn(3)
		for i := 0; i < n; i++ {
			if i > 0 {
				sb.WriteString(",")
			}
			ws()
			fmt.Fprintf(sb, "%q", []string{"a", "b", "key", ""}[r.Intn(4)])
			sb.WriteString([]string{":", " :", ": "}[r.Intn(3)])
			genJSON(r, depth+1, sb)
		}
		ws()
		sb.WriteString("}")
	case 2:
		sb.WriteString([]string{`"x"`, `""`, `"a\nb"`, `"q\"r"`, `"é"`}[r.Intn(5)])
	case 3:
		sb.WriteString([]string{"1", "-12", "0", "42"}[r.Intn(4)])
	case 4:
		sb.WriteString([]string{"1.5", "-0.25", "2.0e3", "1.0E-2"}[r.Intn(4)])
	case 5:
		sb.WriteString("true")
	case 6:
		sb.WriteString("false")
	default:
		sb.WriteString("null")
	}
}

func genArith(r *Rand, depth int, sb *strings.Builder) {
	sp := func() { sb.WriteString([]string{"", "", " ", "\n"}[r.Intn(4)]) }
	if depth > 3 || r.Chance(2, 5) {
		sp()
		fmt.Fprint(sb, r.Intn(10))
		return
	}
	if r.Chance(1, 5) {
		sp()
		sb.WriteString("(")
		genArith(r, depth+1, sb)
		sp()
		sb.WriteString(")")
		return
	}
	genArith(r, depth+1, sb)
	sp()
	sb.WriteByte("+-*/"[r.Intn(4)])
	genArith(r, depth+1, sb)
}

// identFromPool: the k-th identifier of a fixed pool (letters only).
func identFromPool(k int) string {
	b := []byte("v")
	for k > 0 || len(b) < 3 {
		b = append(b, byte('a'+k%26))
		k /= 26
	}
	return string(b)
}

func mutate(r *Rand, s string, noise string) string {
	b := []byte(s)
	switch r.Intn(4) {
	case 0:
		if len(b) > 0 {
			b = b[:r.Intn(len(b))]
		}
	case 1:
		p := r.Intn(len(b) + 1)
		b = append(b[:p], append([]byte{r.Pick(noise)}, b[p:]...)...)
	case 2:
		if len(b) > 0 {
			p := r.Intn(len(b))
			b = append(b[:p], b[p+1:]...)
		}
	case 3:
		if len(b) > 0 {
			b[r.Intn(len(b))] = r.Pick(noise)
		}
	}
	return string(b)
}

func (s *GraphSpec) genInput(r *Rand) string {
	var sb strings.Builder
	var in string
	switch s.Kind {
	case "json":
		genJSON(r, 0, &sb)
		in = sb.String()
		if r.Chance(1, 3) {
			in = mutate(r, in, `[]{},:"x1 `)
		}
	case "arith":
		genArith(r, 0, &sb)
		in = sb.String()
		if r.Chance(1, 3) {
			in = mutate(r, in, "+-*/()1 x")
		}
	case "pb":
		in = "a" + strings.Repeat("b", r.Intn(7))
		if r.Chance(1, 3) {
			in = mutate(r, in, "abc")
		}
	case "pair":
		n := r.Intn(6)
		in = string("ab"[r.Intn(2)])
		for i := 0; i < n; i++ {
			in += string("ab"[r.Intn(2)])
		}
		in += []string{"", "", "!", "?"}[r.Intn(4)]
	case "tokens":
		toks := []string{"1", "2.5", `"s"`, "'c'", "true", "false", "nil", "1h2m", "\nlet", "==", "foo_bar", "+", "-", "0x1f", "`raw`", "#", "~z"}
		n := r.Range(0, 6)
		for i := 0; i < n; i++ {
			sb.WriteString([]string{" ", " ", "\n", "  ", ""}[r.Intn(5)])
			if r.Chance(1, 3) {
				sb.WriteString(identFromPool(r.Intn(1600))) // many distinct identifiers (interning, symbol tables)
			} else {
				sb.WriteString(toks[r.Intn(len(toks))])
			}
		}
		in = sb.String()
		if r.Chance(1, 4) {
			in = mutate(r, in, "?! \n=")
		}
	case "mutual":
		in = "n"
		for i, n := 0, r.Intn(6); i < n; i++ {
			in += string("xyzw"[r.Intn(4)])
		}
		if r.Chance(1, 4) {
			in = mutate(r, in, "nxyzw")
		}
	case "manyopt":
		in = strings.Repeat("a", r.Intn(6))
	case "grammar":
		in = s.G.genInput(r, "ab", 12)
	}
	if len(in) > 60 {
		in = in[:60]
	}
	return in
}

// genLong: an input several times longer than the usual ones (dozens to hundreds of
// positions per memoised parser); "" where the graph kind has no such input.
func (s *GraphSpec) genLong(r *Rand) string {
	var sb strings.Builder
	switch s.Kind {
	case "arith":
		n := r.Range(34, 70)
		for i := 0; i < n; i++ {
			if i > 0 {
				sb.WriteByte("+-*"[r.Intn(3)])
			}
			if r.Chance(1, 8) {
				fmt.Fprintf(&sb, "(%d)", r.Intn(10))
			} else {
				fmt.Fprint(&sb, r.Intn(10))
			}
		}
	case "json":
		sb.WriteString("[")
		for i, n := 0, r.Range(30, 120); i < n; i++ {
			if i > 0 {
				sb.WriteString(", ")
			}
			sb.WriteString([]string{"1", "\"x\"", "null", "[2]", "{\"a\": 1}"}[r.Intn(5)])
		}
		sb.WriteString("]")
	case "tokens":
		for i, n := 0, r.Range(40, 120); i < n; i++ {
			sb.WriteString(" " + identFromPool(r.Intn(1600)))
		}
	}
	return sb.String()
}
