package main

import (
	"math"
	"encoding/json"
	"fmt"
	"reflect"
	"sort"
	"strings"

	"github.com/opsidian/parsley/data"
	sim "github.com/opsidian/parsley/zzsimrt"
)

// C15 - IntSet and IntMap are persistent.
//
// Pass 1 (variant 0): one simulated client applies a seeded history of operations to a
// pool of handles; a plain Go map per handle is the reference model; after every step the
// result is compared with the model and EVERY handle produced so far is re-read.
// Pass 2 (variant 1): 2-3 tasks apply operations to handles of a shared pool under the
// seeded scheduler. With the -race build the invisible handoff makes the race detector an
// oracle for "never written in place" (schedule independent); in both builds results and
// the shared handles are compared with the model after the tasks have joined.

type c15Op struct {
	Op   string `json:"op"`
	A    int    `json:"a,omitempty"`
	B    int    `json:"b,omitempty"`
	V    int    `json:"v,omitempty"`
	Vals []int  `json:"vals,omitempty"`
	Last bool   `json:"last,omitempty"` // operate on the most recently produced handle (long derivation chains)
}

type c15Case struct {
	Variant     int        `json:"variant"`
	Ops         []c15Op    `json:"ops"`             // pass 1: the history; pass 2: builds the shared pool
	TaskOps     [][]c15Op  `json:"task_ops,omitempty"`
	MapSeed     uint64     `json:"map_seed"`
	MapIdentity bool       `json:"map_identity"`
	Sched       *SchedSpec `json:"sched,omitempty"`
	// Arena: a caller-owned, unsorted slice with repeats; "newset" operations with B%3==0
	// spread a prefix of it (NewIntSet(ids[:k]...)), overlapping earlier spreads
	Arena []int `json:"arena,omitempty"`
}

type c15Prop struct{}

func init() { props["C15"] = &c15Prop{} }

func (*c15Prop) Level() string { return "exploration" }
func (*c15Prop) Rule() string {
	return "case = seeded history of NewIntSet/Insert/Union/Len/Each/NewIntMap/Inc/Filter/Get/Keys/Each over ints -2..6 applied to any handle produced earlier (pass 1), or 2-3 scheduled tasks applying such operations to a shared pool (pass 2); non-trivial = at least two value-producing operations applied to handles that were themselves produced by earlier operations; distinct = different hash of the operation lists (plus the schedule fingerprint in pass 2)"
}
func (*c15Prop) Assumptions() []string {
	return []string{
		"reference model: one immutable Go map per handle (map[int]struct{} / map[int]int)",
		"a caller of NewIntMap(m) does not write m afterwards (the harness never does)",
		"pass 2 relies on ThreadSanitizer keeping the older access in its shadow cells and on amd64 total store order for the invisible handoff",
	}
}
func (*c15Prop) Components() map[string]interface{} {
	return map[string]interface{}{"real": []string{"data.IntSet", "data.IntMap (instrumented copy of /repo's working tree)"}, "stub": []string{}, "harness_owned": []string{"operation generator", "Go-map reference model", "scheduler"}}
}

func (*c15Prop) Plans(tier string) []Plan {
	if tier == "quick" {
		return []Plan{
			{Name: "history", Variant: 0, Workers: 16, Runs: 40000, MaxTime: 30e9, Size: 24},
			{Name: "tasks-plain", Variant: 1, Workers: 8, Runs: 15000, MaxTime: 30e9, Size: 10},
			{Name: "tasks-race", Variant: 1, Race: true, Workers: 8, Runs: 8000, MaxTime: 30e9, Size: 10},
		}
	}
	return []Plan{
		{Name: "history", Variant: 0, Workers: 16, Runs: 4000000, MaxTime: 420e9, Size: 40},
		{Name: "history-short", Variant: 0, Workers: 16, Runs: 4000000, MaxTime: 180e9, Size: 8},
		{Name: "tasks-plain", Variant: 1, Workers: 16, Runs: 4000000, MaxTime: 300e9, Size: 14},
		{Name: "tasks-race", Variant: 1, Race: true, Workers: 16, Runs: 4000000, MaxTime: 420e9, Size: 14},
		{Name: "tasks-race-cold", Variant: 1, Race: true, Workers: 64, Runs: 1, MaxTime: 60e9, Size: 14, Cold: true},
	}
}

var c15SetOps = []string{"newset", "newset", "insert", "insert", "insert", "union", "union", "len", "each", "each-nested", "each-derive", "scribble"}
var c15MapOps = []string{"newmap", "inc", "inc", "inc", "filter", "filter", "get", "keys", "mapeach", "mapeach-nested", "mapeach-derive", "keys-scribble"}

func c15GenOp(r *Rand, hi int) c15Op {
	var o c15Op
	if r.Chance(3, 5) {
		o.Op = c15SetOps[r.Intn(len(c15SetOps))]
	} else {
		o.Op = c15MapOps[r.Intn(len(c15MapOps))]
	}
	o.A, o.B = r.Intn(1000), r.Intn(1000)
	o.V = r.Range(-2, hi)
	switch o.Op {
	case "newset":
		n := r.Range(0, 5)
		if hi > 6 {
			n = r.Range(0, 14) // larger sets: size-dependent paths (buffers, thresholds)
			if r.Chance(1, 4) {
				n = r.Range(15, 30)
			}
		}
		for i := 0; i < n; i++ {
			if i > 0 && r.Chance(1, 3) {
				o.Vals = append(o.Vals, o.Vals[r.Intn(len(o.Vals))]) // duplicates leave spare capacity
			} else {
				o.Vals = append(o.Vals, r.Range(-2, hi))
			}
		}
		switch r.Intn(6) { // particular argument orders
		case 0:
			sort.Ints(o.Vals)
		case 1:
			sort.Sort(sort.Reverse(sort.IntSlice(o.Vals)))
		}
	case "newmap":
		n := r.Range(0, 4)
		if hi > 6 {
			n = r.Range(0, 14) // larger maps
		}
		if r.Chance(1, 5) {
			o.Vals = nil
			o.V = -99 // NewIntMap(nil)
		} else {
			for i := 0; i < n; i++ {
				o.Vals = append(o.Vals, r.Range(-2, hi), r.Range(-1, 4)) // counts supplied by the caller may be zero or negative
			}
		}
	}
	return o
}

// extreme keys: around word-size and bitset boundaries, and the ends of the int range
var c15Extremes = []int{31, 32, 33, 63, 64, 65, 127, 128, 129, 255, 256, 1000, 65535, 65536, 1<<31 - 1, 1 << 31, 1<<31 + 1, 1 << 32, 1 << 40,
	math.MaxInt64 - 1, math.MaxInt64, -3, -64, -65, -(1 << 31), -(1 << 31) - 1, -(1 << 40), math.MinInt64 + 1, math.MinInt64}

// widen rewrites some of the values of an operation to extreme keys and, for set
// constructors, sometimes to a large argument list.
func c15Widen(r *Rand, o *c15Op) {
	pick := func(v int) int {
		if r.Chance(1, 3) {
			return c15Extremes[r.Intn(len(c15Extremes))]
		}
		return v
	}
	o.V = pick(o.V)
	switch o.Op {
	case "newset":
		if r.Chance(1, 6) {
			// dozens to hundreds of elements
			n, span := r.Range(40, 300), r.Range(60, 500)
			o.Vals = o.Vals[:0]
			for i := 0; i < n; i++ {
				o.Vals = append(o.Vals, r.Range(-50, span))
			}
			if r.Chance(1, 3) {
				sort.Ints(o.Vals)
			}
			return
		}
		for i := range o.Vals {
			o.Vals[i] = pick(o.Vals[i])
		}
	case "newmap":
		if r.Chance(1, 6) {
			o.Vals = o.Vals[:0]
			for n := r.Range(40, 200); n > 0; n-- {
				o.Vals = append(o.Vals, r.Range(-50, 400), r.Range(-1, 4))
			}
			return
		}
		for i := 0; i < len(o.Vals); i += 2 {
			o.Vals[i] = pick(o.Vals[i])
		}
	}
}

func (*c15Prop) Gen(r *Rand, pl *Plan) Case {
	c := &c15Case{Variant: pl.Variant, MapSeed: r.U64(), MapIdentity: r.Chance(1, 8)}
	size := pl.Size
	if size <= 0 {
		size = 20
	}
	// integer domain: -2..6 mostly (dense collisions), -2..24 in a quarter of the cases
	hi := 6
	if r.Chance(1, 4) {
		hi = 24
	}
	for k := r.Range(0, 9); k > 0; k-- {
		c.Arena = append(c.Arena, r.Range(-2, hi))
	}
	wide := r.Chance(1, 6) // extreme keys and large argument lists
	if pl.Variant == 0 {
		n := r.Range(2, size)
		chain := r.Chance(1, 5) // a long chain: every operation is applied to the latest value
		if chain {
			n = r.Range(size/2, size+10)
		}
		for i := 0; i < n; i++ {
			o := c15GenOp(r, hi)
			if wide {
				c15Widen(r, &o)
			}
			o.Last = chain && r.Chance(4, 5)
			c.Ops = append(c.Ops, o)
		}
		return c
	}
	n := r.Range(1, 6)
	for i := 0; i < n; i++ {
		o := c15GenOp(r, hi)
		if i == 0 && r.Chance(2, 3) {
			// bias: a shared set with spare capacity
			o = c15Op{Op: "newset", Vals: []int{1, 1, r.Range(2, 6), r.Range(-2, 6)}}
		}
		c.Ops = append(c.Ops, o)
	}
	tasks := r.Range(2, 3)
	for t := 0; t < tasks; t++ {
		var ops []c15Op
		k := r.Range(1, size)
		for i := 0; i < k; i++ {
			o := c15GenOp(r, hi)
			if wide {
				c15Widen(r, &o)
			}
			ops = append(ops, o)
		}
		c.TaskOps = append(c.TaskOps, ops)
	}
	c.Sched = genSched(r, tasks, 200)
	return c
}

func (*c15Prop) Decode(b []byte) (Case, error) {
	c := &c15Case{}
	if err := json.Unmarshal(b, c); err != nil {
		return nil, err
	}
	return c, nil
}

// ---- model + pool ---------------------------------------------------------------------

type c15Pool struct {
	sets  []data.IntSet
	msets []map[int]struct{}
	maps  []data.IntMap
	mmaps []map[int]int
	log   []string // rendered observations (pass 2 comparison)
	// arena: a caller-owned slice; "newset" operations marked shared spread overlapping
	// parts of it into NewIntSet (NewIntSet(ids[:k]...)), the way a caller holding ids would
	arena  []int
	arena0 []int // what the caller wrote into it
}

func newC15Pool() *c15Pool {
	return &c15Pool{
		// the shared empties and the zero values (no constructor)
		sets: []data.IntSet{data.EmptyIntSet, {}}, msets: []map[int]struct{}{{}, {}},
		maps: []data.IntMap{data.EmptyIntMap, {}}, mmaps: []map[int]int{{}, {}},
	}
}

func (p *c15Pool) fork() *c15Pool {
	return &c15Pool{sets: append([]data.IntSet(nil), p.sets...), msets: append([]map[int]struct{}(nil), p.msets...),
		maps: append([]data.IntMap(nil), p.maps...), mmaps: append([]map[int]int(nil), p.mmaps...), arena: append([]int(nil), p.arena0...), arena0: append([]int(nil), p.arena0...)}
}

func readSet(s data.IntSet) []int {
	out := []int{}
	s.Each(func(v int) { out = append(out, v) })
	return out
}

func modelSet(m map[int]struct{}) []int {
	out := make([]int, 0, len(m))
	for k := range m {
		out = append(out, k)
	}
	sort.Ints(out)
	return out
}

func eqInts(a, b []int) bool {
	if len(a) != len(b) {
		return false
	}
	for i := range a {
		if a[i] != b[i] {
			return false
		}
	}
	return true
}

// checkSet: contents equal the model, ascending, no duplicates, Len agrees.
func checkSet(s data.IntSet, m map[int]struct{}) string {
	got := readSet(s)
	for i := 1; i < len(got); i++ {
		if got[i] <= got[i-1] {
			return fmt.Sprintf("set iterates %v: not strictly ascending", got)
		}
	}
	if want := modelSet(m); !eqInts(got, want) {
		return fmt.Sprintf("set reads %v, model %v", got, want)
	}
	if s.Len() != len(m) {
		return fmt.Sprintf("Len()=%d, model %d", s.Len(), len(m))
	}
	return ""
}

func checkMap(im data.IntMap, m map[int]int) string {
	keys := im.Keys()
	sort.Ints(keys)
	want := make([]int, 0, len(m))
	for k := range m {
		want = append(want, k)
	}
	sort.Ints(want)
	if !eqInts(keys, want) {
		return fmt.Sprintf("map Keys()=%v, model %v", keys, want)
	}
	for k := -3; k <= 25; k++ {
		if im.Get(k) != m[k] {
			return fmt.Sprintf("map Get(%d)=%d, model %d", k, im.Get(k), m[k])
		}
	}
	for k, want := range m {
		if im.Get(k) != want {
			return fmt.Sprintf("map Get(%d)=%d, model %d", k, im.Get(k), want)
		}
	}
	for _, k := range c15Extremes {
		if im.Get(k) != m[k] {
			return fmt.Sprintf("map Get(%d)=%d, model %d", k, im.Get(k), m[k])
		}
	}
	seen := map[int]int{}
	dup := false
	im.Each(func(k, v int) {
		if _, ok := seen[k]; ok {
			dup = true
		}
		seen[k] = v
	})
	if dup || len(seen) != len(m) {
		return fmt.Sprintf("map Each visited %v, model %v", seen, m)
	}
	for k, v := range m {
		if seen[k] != v {
			return fmt.Sprintf("map Each gave %d->%d, model %d", k, seen[k], v)
		}
	}
	return ""
}

func sliceCapSlack(v interface{}) bool {
	rv := reflect.ValueOf(v)
	if rv.Kind() == reflect.Struct && rv.NumField() > 0 && rv.Field(0).Kind() == reflect.Slice {
		return rv.Field(0).Cap() > rv.Field(0).Len()
	}
	return false
}

// apply executes one operation against the real values and the model; it returns a
// description of the first disagreement ("" if none) and whether the op produced a value
// from a derived handle.
func (p *c15Pool) apply(o c15Op, probes map[string]int64) (class, detail string, derived bool) {
	sa, sb := o.A%len(p.sets), o.B%len(p.sets)
	ma := o.A % len(p.maps)
	if o.Last {
		sa, ma = len(p.sets)-1, len(p.maps)-1
	}
	switch o.Op {
	case "newset":
		// never hand the case's own slice to the library: spread a caller-owned copy
		vals := append([]int(nil), o.Vals...)
		model := vals
		if o.B%3 == 0 && len(p.arena) > 0 {
			// a prefix of the caller's long-lived slice, overlapping earlier spreads; the
			// model is what the caller put there (a correct library never writes to it)
			k := 1 + o.A%len(p.arena)
			vals, model = p.arena[:k], p.arena0[:k]
			probes["newset_from_a_shared_caller_slice"]++
		}
		s := data.NewIntSet(vals...)
		m := map[int]struct{}{}
		for _, v := range model {
			m[v] = struct{}{}
		}
		p.sets, p.msets = append(p.sets, s), append(p.msets, m)
		if sliceCapSlack(s) {
			probes["set_created_with_spare_capacity"]++
		}
		if d := checkSet(s, m); d != "" {
			return "model:newset", fmt.Sprintf("NewIntSet(%v): %s", vals, d), false
		}
	case "insert":
		if sliceCapSlack(p.sets[sa]) {
			probes["insert_on_set_with_spare_capacity"]++
		}
		if sa == 0 {
			probes["op_on_shared_empty"]++
		}
		s := p.sets[sa].Insert(o.V)
		m := map[int]struct{}{o.V: {}}
		for k := range p.msets[sa] {
			m[k] = struct{}{}
		}
		p.sets, p.msets = append(p.sets, s), append(p.msets, m)
		if d := checkSet(s, m); d != "" {
			return "model:insert", fmt.Sprintf("%v.Insert(%d): %s", modelSet(p.msets[sa]), o.V, d), sa > 0
		}
		return "", "", sa > 0
	case "union":
		s := p.sets[sa].Union(p.sets[sb])
		m := map[int]struct{}{}
		for k := range p.msets[sa] {
			m[k] = struct{}{}
		}
		for k := range p.msets[sb] {
			m[k] = struct{}{}
		}
		if len(p.msets[sa]) == 0 || len(p.msets[sb]) == 0 {
			probes["union_returning_an_operand"]++
		}
		p.sets, p.msets = append(p.sets, s), append(p.msets, m)
		if d := checkSet(s, m); d != "" {
			return "model:union", fmt.Sprintf("%v.Union(%v): %s", modelSet(p.msets[sa]), modelSet(p.msets[sb]), d), sa > 0 || sb > 0
		}
		return "", "", sa > 0 && sb > 0
	case "len", "each":
		if d := checkSet(p.sets[sa], p.msets[sa]); d != "" {
			return "persist:set", fmt.Sprintf("handle s%d: %s", sa, d), false
		}
		p.log = append(p.log, fmt.Sprint(readSet(p.sets[sa])))
	case "scribble":
		// the caller re-uses its own slice (a scratch buffer) for something else; sets built
		// from it earlier must not follow
		if len(p.arena) > 0 {
			i := o.A % len(p.arena)
			p.arena[i], p.arena0[i] = o.V, o.V
			probes["caller_rewrote_its_slice"]++
		}
	case "each-nested":
		// re-entrancy: while iterating handle A, the callback iterates handle B (and A again)
		var outer, inner []int
		bad := ""
		p.sets[sa].Each(func(v int) {
			outer = append(outer, v)
			if len(outer) == 1 {
				if d := checkSet(p.sets[sa], p.msets[sa]); d != "" {
					bad = d
				}
				// the foreign iteration comes last, so nothing re-establishes A's state
				p.sets[sb].Each(func(w int) { inner = append(inner, w) })
			}
		})
		probes["nested_iterations"]++
		if bad != "" {
			return "persist:set", fmt.Sprintf("handle s%d read inside its own Each: %s", sa, bad), false
		}
		if want := modelSet(p.msets[sa]); !eqInts(outer, want) {
			return "model:each", fmt.Sprintf("Each over %v with a nested Each over %v visited %v", want, modelSet(p.msets[sb]), outer), false
		}
		if want := modelSet(p.msets[sb]); len(outer) > 0 && !eqInts(inner, want) {
			return "model:each", fmt.Sprintf("nested Each over %v visited %v", want, inner), false
		}
	case "each-derive":
		// re-entrancy: the callback derives new values from the very set being iterated
		var outer []int
		var ins, uni data.IntSet
		p.sets[sa].Each(func(v int) {
			outer = append(outer, v)
			if len(outer) == 1 {
				ins = p.sets[sa].Insert(o.V)
				uni = p.sets[sa].Union(p.sets[sb])
			}
		})
		probes["derivations_inside_each"]++
		if want := modelSet(p.msets[sa]); !eqInts(outer, want) {
			return "model:each", fmt.Sprintf("Each over %v whose callback calls Insert(%d) and Union(%v) on the same value visited %v", want, o.V, modelSet(p.msets[sb]), outer), false
		}
		if len(outer) > 0 {
			mi, mu := map[int]struct{}{o.V: {}}, map[int]struct{}{}
			for k := range p.msets[sa] {
				mi[k], mu[k] = struct{}{}, struct{}{}
			}
			for k := range p.msets[sb] {
				mu[k] = struct{}{}
			}
			p.sets, p.msets = append(p.sets, ins, uni), append(p.msets, mi, mu)
			if d := checkSet(ins, mi); d != "" {
				return "model:insert", fmt.Sprintf("%v.Insert(%d) called inside Each: %s", modelSet(p.msets[sa]), o.V, d), true
			}
			if d := checkSet(uni, mu); d != "" {
				return "model:union", fmt.Sprintf("%v.Union(%v) called inside Each: %s", modelSet(p.msets[sa]), modelSet(p.msets[sb]), d), true
			}
			return "", "", true
		}
	case "mapeach-derive":
		visited := map[int]int{}
		calls := 0
		var inc, fil data.IntMap
		p.maps[ma].Each(func(k, v int) {
			visited[k] = v
			calls++
			if calls == 1 {
				inc = p.maps[ma].Inc(o.V)
				fil = p.maps[ma].Filter(p.sets[sb])
			}
		})
		probes["derivations_inside_each"]++
		if calls != len(p.mmaps[ma]) || fmt.Sprint(visited) != fmt.Sprint(p.mmaps[ma]) {
			return "model:each", fmt.Sprintf("Each over %v whose callback calls Inc(%d) and Filter(%v) on the same value visited %v in %d calls", p.mmaps[ma], o.V, modelSet(p.msets[sb]), visited, calls), false
		}
		if calls > 0 {
			mi, mf := map[int]int{}, map[int]int{}
			for k, v := range p.mmaps[ma] {
				mi[k] = v
				if _, ok := p.msets[sb][k]; ok {
					mf[k] = v
				}
			}
			mi[o.V]++
			p.maps, p.mmaps = append(p.maps, inc, fil), append(p.mmaps, mi, mf)
			if d := checkMap(inc, mi); d != "" {
				return "model:inc", fmt.Sprintf("%v.Inc(%d) called inside Each: %s", p.mmaps[ma], o.V, d), true
			}
			if d := checkMap(fil, mf); d != "" {
				return "model:filter", fmt.Sprintf("%v.Filter(%v) called inside Each: %s", p.mmaps[ma], modelSet(p.msets[sb]), d), true
			}
			return "", "", true
		}
	case "keys-scribble":
		// the caller owns the slice Keys() returned and may overwrite it
		ks := p.maps[ma].Keys()
		for i := range ks {
			ks[i] = o.V
		}
		probes["caller_rewrote_keys_slice"]++
	case "mapeach-nested":
		mb := o.B % len(p.maps)
		outer, inner := map[int]int{}, map[int]int{}
		n, calls := 0, 0
		bad := ""
		p.maps[ma].Each(func(k, v int) {
			outer[k] = v
			calls++
			if n == 0 {
				n++
				if d := checkMap(p.maps[ma], p.mmaps[ma]); d != "" {
					bad = d
				}
				// the foreign iteration comes last, so nothing re-establishes A's state
				p.maps[mb].Each(func(k2, v2 int) { inner[k2] = v2 })
			}
		})
		probes["nested_iterations"]++
		if bad != "" {
			return "persist:map", fmt.Sprintf("handle m%d read inside its own Each: %s", ma, bad), false
		}
		if calls != len(p.mmaps[ma]) || fmt.Sprint(outer) != fmt.Sprint(p.mmaps[ma]) {
			return "model:each", fmt.Sprintf("Each over %v with a nested Each over %v visited %v in %d calls", p.mmaps[ma], p.mmaps[mb], outer, calls), false
		}
		if len(p.mmaps[ma]) > 0 && fmt.Sprint(inner) != fmt.Sprint(p.mmaps[mb]) {
			return "model:each", fmt.Sprintf("nested Each over %v visited %v", p.mmaps[mb], inner), false
		}
	case "newmap":
		var im data.IntMap
		m := map[int]int{}
		if o.V == -99 {
			im = data.NewIntMap(nil)
		} else {
			fresh := map[int]int{}
			for i := 0; i+1 < len(o.Vals); i += 2 {
				fresh[o.Vals[i]] = o.Vals[i+1]
				m[o.Vals[i]] = o.Vals[i+1]
			}
			im = data.NewIntMap(fresh)
		}
		p.maps, p.mmaps = append(p.maps, im), append(p.mmaps, m)
		if d := checkMap(im, m); d != "" {
			return "model:newmap", d, false
		}
	case "inc":
		if ma == 0 {
			probes["op_on_shared_empty"]++
		}
		im := p.maps[ma].Inc(o.V)
		m := map[int]int{}
		for k, v := range p.mmaps[ma] {
			m[k] = v
		}
		m[o.V]++
		p.maps, p.mmaps = append(p.maps, im), append(p.mmaps, m)
		if d := checkMap(im, m); d != "" {
			return "model:inc", fmt.Sprintf("%v.Inc(%d): %s", p.mmaps[ma], o.V, d), ma > 0
		}
		return "", "", ma > 0
	case "filter":
		im := p.maps[ma].Filter(p.sets[sb])
		m := map[int]int{}
		for k, v := range p.mmaps[ma] {
			if _, ok := p.msets[sb][k]; ok {
				m[k] = v
			}
		}
		if len(m) == len(p.mmaps[ma]) && len(m) > 0 {
			probes["filter_keeping_every_key"]++
		}
		p.maps, p.mmaps = append(p.maps, im), append(p.mmaps, m)
		if d := checkMap(im, m); d != "" {
			return "model:filter", fmt.Sprintf("%v.Filter(%v): %s", p.mmaps[ma], modelSet(p.msets[sb]), d), ma > 0
		}
		return "", "", ma > 0
	case "get", "keys", "mapeach":
		if d := checkMap(p.maps[ma], p.mmaps[ma]); d != "" {
			return "persist:map", fmt.Sprintf("handle m%d: %s", ma, d), false
		}
		ks := p.maps[ma].Keys()
		sort.Ints(ks)
		p.log = append(p.log, fmt.Sprint(ks, p.maps[ma].Get(o.V)))
	}
	return "", "", false
}

// recheckAll re-reads every handle ever produced.
func (p *c15Pool) recheckAll() (class, detail string) {
	for i := range p.sets {
		if d := checkSet(p.sets[i], p.msets[i]); d != "" {
			return "persist:set", fmt.Sprintf("set handle s%d, produced earlier as %v, now: %s", i, modelSet(p.msets[i]), d)
		}
	}
	for i := range p.maps {
		if d := checkMap(p.maps[i], p.mmaps[i]); d != "" {
			return "persist:map", fmt.Sprintf("map handle m%d, produced earlier as %v, now: %s", i, p.mmaps[i], d)
		}
	}
	return "", ""
}

func c15Hash(h uint64, ops []c15Op) uint64 {
	for _, o := range ops {
		h = fnv(h, o.Op)
		h = fnvU(h, uint64(o.A)<<32|uint64(uint32(o.B)))
		h = fnvU(h, uint64(int64(o.V)))
		for _, v := range o.Vals {
			h = fnvU(h, uint64(int64(v)))
		}
	}
	return h
}

func (*c15Prop) Run(cc Case) Verdict {
	c := cc.(*c15Case)
	v := Verdict{Probes: map[string]int64{}, Faults: map[string]int64{}}
	sim.SetMapSeed(c.MapSeed, c.MapIdentity)
	if !c.MapIdentity {
		v.Faults["map_order_stream"] = 1
	}
	pool := newC15Pool()
	pool.arena, pool.arena0 = append([]int(nil), c.Arena...), append([]int(nil), c.Arena...)
	derived := 0
	for i, o := range c.Ops {
		cl, d, der := pool.apply(o, v.Probes)
		if der {
			derived++
		}
		if cl == "" {
			cl, d = pool.recheckAll()
			if cl != "" {
				d = fmt.Sprintf("after step %d (%s): %s", i, o.Op, d)
			}
		}
		if cl != "" {
			v.Violation, v.Class, v.Detail = true, cl, d
			return v
		}
	}
	v.Steps = int64(len(c.Ops))
	v.Fingerprint = c15Hash(0, c.Ops)
	if c.Variant == 0 {
		v.Nontrivial = derived >= 2
		return v
	}
	// pass 2
	n := len(c.TaskOps)
	if n < 1 || n > sim.MaxTasks {
		v.Discard = "bad-task-count"
		return v
	}
	locals := make([]*c15Pool, n+1)
	fails := make([][2]string, n+1)
	probes := make([]map[string]int64, n+1)
	nshared := [2]int{len(pool.sets), len(pool.maps)}
	for t := 1; t <= n; t++ {
		locals[t] = pool.fork()
		probes[t] = map[string]int64{}
	}
	info := runTasks(n, c.Sched, func(id int64) {
		lp := locals[id]
		for _, o := range c.TaskOps[id-1] {
			cl, d, _ := lp.apply(o, probes[id])
			if cl != "" && fails[id][0] == "" {
				fails[id] = [2]string{cl, fmt.Sprintf("task %d: %s", id, d)}
			}
		}
	})
	v.Steps += info.Steps
	v.Trace = info.TraceHash
	if info.OverBudget || info.Deadlock || info.Unreplayable {
		v.Discard = "taint-budget"
		return v
	}
	for t := 1; t <= n; t++ {
		for k, x := range probes[t] {
			v.Probes[k] += x
		}
		v.Fingerprint = c15Hash(v.Fingerprint, c.TaskOps[t-1])
		if info.Ends[t].Panic != nil {
			v.Violation, v.Class, v.Detail = true, "panic", fmt.Sprintf("task %d panicked: %s", t, info.Ends[t].PanicStr)
			return v
		}
	}
	v.Fingerprint = fnvU(v.Fingerprint, info.SchedHash)
	v.Probes["context_switches"] += int64(info.Switches)
	for t := 1; t <= n; t++ {
		if fails[t][0] != "" {
			v.Violation, v.Class, v.Detail = true, fails[t][0], fails[t][1]
			return v
		}
	}
	// after the join: every shared handle and every task-local handle re-reads as its model
	if cl, d := pool.recheckAll(); cl != "" {
		v.Violation, v.Class, v.Detail = true, cl, "shared pool after the tasks joined: "+d
		return v
	}
	for t := 1; t <= n; t++ {
		if cl, d := locals[t].recheckAll(); cl != "" {
			v.Violation, v.Class, v.Detail = true, cl, fmt.Sprintf("task %d's handles after the join: %s", t, d)
			return v
		}
	}
	_ = nshared
	v.Nontrivial = info.Switches >= 2
	return v
}

func (*c15Prop) Shrink(cc Case) []Case {
	c := cc.(*c15Case)
	var out []Case
	clone := func() *c15Case {
		b, _ := json.Marshal(c)
		n := &c15Case{}
		json.Unmarshal(b, n)
		return n
	}
	dropOps := func(get func(*c15Case) *[]c15Op) {
		ops := *get(c)
		n := len(ops)
		for chunk := n / 2; chunk >= 1; chunk /= 2 {
			for start := 0; start+chunk <= n; start += chunk {
				k := clone()
				p := get(k)
				*p = append(append([]c15Op(nil), ops[:start]...), ops[start+chunk:]...)
				out = append(out, k)
			}
			if chunk == 1 {
				break
			}
		}
	}
	dropOps(func(k *c15Case) *[]c15Op { return &k.Ops })
	for t := range c.TaskOps {
		t := t
		dropOps(func(k *c15Case) *[]c15Op { return &k.TaskOps[t] })
	}
	if len(c.TaskOps) > 2 {
		for t := range c.TaskOps {
			k := clone()
			k.TaskOps = append(append([][]c15Op(nil), c.TaskOps[:t]...), c.TaskOps[t+1:]...)
			out = append(out, k)
		}
	}
	if c.Sched != nil {
		for _, s := range shrinkSched(c.Sched) {
			k := clone()
			k.Sched = s
			out = append(out, k)
		}
	}
	// simplify arguments
	simp := func(get func(*c15Case) []c15Op) {
		for i, o := range get(c) {
			if len(o.Vals) > 0 {
				k := clone()
				get(k)[i].Vals = o.Vals[:len(o.Vals)-1]
				out = append(out, k)
			}
			if o.A >= 20 || o.B >= 20 {
				k := clone()
				get(k)[i].A, get(k)[i].B = o.A%20, o.B%20
				out = append(out, k)
			}
		}
	}
	simp(func(k *c15Case) []c15Op { return k.Ops })
	if !c.MapIdentity {
		k := clone()
		k.MapIdentity = true
		out = append(out, k)
	}
	return out
}

var _ = strings.Join
