package main

import (
	"encoding/json"
	"fmt"
	"strings"

	"github.com/opsidian/parsley/ast"
	"github.com/opsidian/parsley/combinator"
	"github.com/opsidian/parsley/ast/interpreter"
	"github.com/opsidian/parsley/data"
	"github.com/opsidian/parsley/parser"
	"github.com/opsidian/parsley/parsley"
	"github.com/opsidian/parsley/text"
	"github.com/opsidian/parsley/text/terminal"
)

// C13 - tree passes reach every node once, in the documented order.
//
// The four passes (Walk, StaticCheck, Transform, EvaluateNode) do nothing but call back
// into the environment. The simulator owns every callback, hence every failure point:
// for each seeded tree and each pass it runs the pass fault-free and then once per
// fault point k = 1..#callbacks (callback k returns true / an error) on a fresh copy of
// the tree - exhaustive per tree. Oracle: a plain-tree reference implementation of the
// documented behaviour; compared are the whole callback log (order, exactly-once, nothing
// after the fault), the returned values and Schema() of every node.

type TNode struct {
	Kind   string  `json:"k"`           // nt term lit empty walkable xformable checkable list
	Interp string  `json:"i,omitempty"` // "", plain, checker, transformer, both, select0, selectlast, array, libnil, object
	Kids   []TNode `json:"c,omitempty"`
	// ViaSeq: the non-terminal is produced by a named, bound combinator.SeqOf whose operands
	// hand over the (already built) children - the way parsers make such nodes - instead of
	// a direct ast.NewNonTerminalNode call
	ViaSeq bool `json:"s,omitempty"`
}

type c13Step struct {
	Pass  string `json:"pass"`
	Fault int    `json:"fault"` // 0 = fault-free, k = the k-th callback of this pass fails
}

type c13Case struct {
	Tree  TNode  `json:"tree"`
	Pass  string `json:"pass,omitempty"`  // "" = all passes
	Fault int    `json:"fault,omitempty"` // with Pass: 0 = fault-free, k = k-th callback fails; -1 = all
	// Seq: several passes applied one after the other to the SAME tree object (a history:
	// schemas recorded by an earlier pass, children replaced by an earlier Transform)
	Seq []c13Step `json:"seq,omitempty"`
}

type c13Prop struct{}

func init() { props["C13"] = &c13Prop{} }

func (*c13Prop) Level() string { return "fault_enumeration" }
func (*c13Prop) Rule() string {
	return "case = seeded tree (arity 0-4, bounded depth; ast.NonTerminalNode with interpreter capability drawn from {none, plain, +StaticChecker, +NodeTransformer, both, library Select/Array/Object/Nil}, ast.TerminalNode, literal nodes, ast.EmptyNode, empty non-terminals, harness nodes implementing Walkable / Transformable / StaticCheckable, ast.NodeList at the root); for every tree and each of the four passes the fault-free run and EVERY fault point (k-th environment callback fails) are executed - exhaustive per tree; evaluations = (tree, pass, fault point) executions; non-trivial = tree with >= 3 nodes and >= 2 fault points; distinct = different tree hash"
}
func (*c13Prop) Assumptions() []string {
	return []string{
		"reference model = documented behaviour transcribed onto a plain tree: Walk = Walkable delegate or children first, then the node, stop at the first true; StaticCheck = that walk restricted to StaticCheckable nodes, schema stored iff no error, first error returned; Transform = own transformer if the interpreter has one, else children left to right, first error aborts; Eval receives exactly the node and the user context",
		"the partial in-place child replacement that Transform leaves behind when it aborts is not asserted (the statement is silent on it)",
		"harness interpreters evaluate their children left to right through parsley.EvaluateNode",
	}
}
func (*c13Prop) Components() map[string]interface{} {
	return map[string]interface{}{"real": []string{"parsley.Walk / StaticCheck / Transform / EvaluateNode", "ast.NonTerminalNode, TerminalNode, EmptyNode, NodeList", "ast/interpreter Select / Array / Object / Nil", "text/terminal.IntegerNode"},
		"stub": []string{}, "harness_owned": []string{"Walk callback, StaticChecker, NodeTransformer, Interpreter.Eval, Walkable / Transformable / StaticCheckable node types (the failure points)"}}
}

func (*c13Prop) Plans(tier string) []Plan {
	if tier == "quick" {
		return []Plan{{Name: "trees", Workers: 12, Runs: 15000, MaxTime: 32e9, Size: 6}, {Name: "small-trees", Workers: 4, Runs: 15000, MaxTime: 32e9, Size: 3}}
	}
	return []Plan{{Name: "trees", Workers: 16, Runs: 2000000, MaxTime: 600e9, Size: 9}, {Name: "small-trees", Workers: 16, Runs: 2000000, MaxTime: 240e9, Size: 3}}
}

// the first 9 entries are valid on a child-less non-terminal too
var c13Interps = []string{"", "plain", "plain", "checker", "checker", "transformer", "both", "transformer-same", "both-same", "transformer-child", "select0", "selectlast", "array", "libnil", "both-nilptr"}

func genTree(r *Rand, depth, maxDepth int, budget *int) TNode {
	*budget--
	if depth >= maxDepth || *budget <= 0 || r.Chance(depth, depth+3) {
		switch r.Intn(9) {
		case 0:
			return TNode{Kind: "empty"}
		case 1:
			return TNode{Kind: "lit"}
		case 2:
			if r.Chance(1, 3) {
				return TNode{Kind: "litxform"} // a literal (has a value) that is Transformable too
			}
			return TNode{Kind: "xformable"}
		case 3:
			return TNode{Kind: "checkable"}
		case 4:
			return TNode{Kind: "nt", Interp: c13Interps[r.Intn(9)]} // empty non-terminal (no select/array on it)
		default:
			return TNode{Kind: "term"}
		}
	}
	t := TNode{Kind: "nt"}
	if r.Chance(1, 8) {
		t.Kind = "walkable"
		if r.Chance(1, 3) {
			t.Kind = "walknt"
		} else if r.Chance(1, 3) {
			t.Kind = "wrapnt"
		} else if r.Chance(1, 3) {
			t.Kind = "litwalk" // a literal (has a value) that is Walkable too (e.g. a folded list that still exposes its parts)
		}
	} else if depth > 0 && r.Chance(1, 14) {
		// a list of alternatives nested below the root (Walkable: only its first element is walked)
		t.Kind = "list"
	}
	n := r.Range(1, 4)
	if t.Kind == "nt" {
		t.Interp = c13Interps[r.Intn(len(c13Interps))]
		if r.Chance(1, 12) {
			t.Interp = "object"
			m := r.Range(1, 2)
			for i := 0; i < m; i++ {
				if i > 0 {
					t.Kids = append(t.Kids, TNode{Kind: "term"})
				}
				kv := TNode{Kind: "nt", Interp: c13Interps[r.Intn(9)], Kids: []TNode{{Kind: "term"}, {Kind: "term"}, genTree(r, depth+2, maxDepth, budget)}}
				t.Kids = append(t.Kids, kv)
			}
			return t
		}
	}
	for i := 0; i < n; i++ {
		t.Kids = append(t.Kids, genTree(r, depth+1, maxDepth, budget))
	}
	if t.Kind == "nt" && r.Chance(1, 4) {
		t.ViaSeq = true
		for _, k := range t.Kids {
			if k.Kind == "list" {
				t.ViaSeq = false
			}
		}
	}
	return t
}

func (*c13Prop) Gen(r *Rand, pl *Plan) Case {
	maxDepth := pl.Size
	if maxDepth <= 0 {
		maxDepth = 6
	}
	budget := 60
	c := &c13Case{Fault: -1}
	c.Tree = genTree(r, 0, r.Range(1, maxDepth), &budget)
	if r.Chance(1, 6) {
		lst := TNode{Kind: "list", Kids: []TNode{c.Tree}}
		for k := r.Intn(3); k > 0; k-- {
			lst.Kids = append(lst.Kids, genTree(r, 1, 3, &budget))
		}
		c.Tree = lst
	}
	return c
}

func (*c13Prop) Decode(b []byte) (Case, error) {
	c := &c13Case{}
	if err := json.Unmarshal(b, c); err != nil {
		return nil, err
	}
	if err := c.Tree.valid(true); err != nil {
		return nil, err
	}
	return c, nil
}

func (t *TNode) valid(root bool) error {
	switch t.Kind {
	case "term", "lit", "empty", "xformable", "checkable", "litxform":
		if len(t.Kids) != 0 {
			return fmt.Errorf("%s with kids", t.Kind)
		}
	case "walkable", "walknt", "wrapnt", "litwalk":
	case "list":
		if len(t.Kids) == 0 {
			return fmt.Errorf("list must not be empty")
		}
	case "nt":
		switch t.Interp {
		case "select0", "selectlast":
			if len(t.Kids) == 0 {
				return fmt.Errorf("select on empty non-terminal")
			}
		case "object":
			for i := 0; i < len(t.Kids); i += 2 {
				kv := t.Kids[i]
				if kv.Kind != "nt" || len(kv.Kids) < 3 || kv.Kids[0].Kind != "term" {
					return fmt.Errorf("object: bad key-value child")
				}
			}
		case "transformer-child":
			if len(t.Kids) == 0 {
				return fmt.Errorf("transformer-child on empty non-terminal")
			}
		case "", "plain", "checker", "transformer", "both", "transformer-same", "both-same", "array", "libnil", "both-nilptr":
		default:
			return fmt.Errorf("unknown interpreter %q", t.Interp)
		}
	default:
		return fmt.Errorf("unknown kind %q", t.Kind)
	}
	for i := range t.Kids {
		if err := t.Kids[i].valid(false); err != nil {
			return err
		}
	}
	return nil
}

func (t *TNode) count() int {
	n := 1
	for i := range t.Kids {
		n += t.Kids[i].count()
	}
	return n
}

func (t *TNode) hash(h uint64) uint64 {
	h = fnv(fnv(h, t.Kind), t.Interp)
	h = fnvU(h, uint64(len(t.Kids)))
	for i := range t.Kids {
		h = t.Kids[i].hash(h)
	}
	return h
}

// ---- harness-owned node types -----------------------------------------------------------

type hNode struct {
	run  *c13Run
	id   int
	kind string
	kids []parsley.Node
}

func (n *hNode) Token() string          { return strings.ToUpper(n.kind) }
func (n *hNode) Schema() interface{}    { return nil }
func (n *hNode) Pos() parsley.Pos       { return parsley.Pos(n.id) }
func (n *hNode) ReaderPos() parsley.Pos { return parsley.Pos(n.id) }

type walkableNode struct{ hNode }

// Walk is this node's own traversal: children in REVERSE order (a delegate decides).
func (n *walkableNode) Walk(f func(parsley.Node) bool) bool {
	for i := len(n.kids) - 1; i >= 0; i-- {
		if parsley.Walk(n.kids[i], f) {
			return true
		}
	}
	return false
}

// walkNTNode implements BOTH Walkable and NonTerminalNode: the delegate decides (children
// in reverse order); the library must not walk the children a second time.
type walkNTNode struct{ hNode }

func (n *walkNTNode) Walk(f func(parsley.Node) bool) bool {
	for i := len(n.kids) - 1; i >= 0; i-- {
		if parsley.Walk(n.kids[i], f) {
			return true
		}
	}
	return false
}
func (n *walkNTNode) Children() []parsley.Node { return n.kids }
func (n *walkNTNode) Value(userCtx interface{}) (interface{}, parsley.Error) {
	if n.run.callback("eval", n.id, userCtx, "") {
		return nil, parsley.NewErrorf(parsley.Pos(n.id), "fault@%d", n.id)
	}
	var sb strings.Builder
	sb.WriteString("(")
	for _, c := range n.kids {
		v, err := parsley.EvaluateNode(userCtx, c)
		if err != nil {
			return nil, err
		}
		sb.WriteString(canon(v) + " ")
	}
	return sb.String() + ")", nil
}

// wrapNTNode is a user node that EMBEDS the library's non-terminal (the usual way to
// decorate a parser's node) and exposes its own child list; it has no Walk of its own, so
// the library walks Children() in order. Whatever the embedded type provides beyond the
// methods redefined here (StaticCheck with a nil interpreter: nothing) is inherited.
type wrapNTNode struct {
	*ast.NonTerminalNode
	run  *c13Run
	id   int
	kids []parsley.Node
}

func (n *wrapNTNode) Token() string            { return "WRAPNT" }
func (n *wrapNTNode) Schema() interface{}      { return nil }
func (n *wrapNTNode) Pos() parsley.Pos         { return parsley.Pos(n.id) }
func (n *wrapNTNode) ReaderPos() parsley.Pos   { return parsley.Pos(n.id) }
func (n *wrapNTNode) Children() []parsley.Node { return n.kids }
func (n *wrapNTNode) Transform(userCtx interface{}) (parsley.Node, parsley.Error) {
	return n, nil // transforms itself: stays as it is, the library does not descend
}
func (n *wrapNTNode) Value(userCtx interface{}) (interface{}, parsley.Error) {
	if n.run.callback("eval", n.id, userCtx, "") {
		return nil, parsley.NewErrorf(parsley.Pos(n.id), "fault@%d", n.id)
	}
	var sb strings.Builder
	sb.WriteString("(")
	for _, c := range n.kids {
		v, err := parsley.EvaluateNode(userCtx, c)
		if err != nil {
			return nil, err
		}
		sb.WriteString(canon(v) + " ")
	}
	return sb.String() + ")", nil
}

type xformableNode struct{ hNode }

func (n *xformableNode) Transform(userCtx interface{}) (parsley.Node, parsley.Error) {
	if n.run.callback("xform", n.id, userCtx, "") {
		return nil, parsley.NewErrorf(parsley.Pos(n.id), "fault@%d", n.id)
	}
	return n.run.replacement(n.id), nil
}

// litXformNode / litWalkNode: user nodes with SEVERAL capabilities - a literal value plus
// their own Transform / Walk.
type litXformNode struct{ xformableNode }

func (n *litXformNode) Value() interface{} { return fmt.Sprintf("lx%d", n.id) }

type litWalkNode struct{ walkableNode }

func (n *litWalkNode) Value() interface{} { return fmt.Sprintf("lw%d", n.id) }

type checkableNode struct{ hNode }

func (n *checkableNode) StaticCheck(userCtx interface{}) parsley.Error {
	if n.run.callback("scheck", n.id, userCtx, "") {
		return parsley.NewErrorf(parsley.Pos(n.id), "fault@%d", n.id)
	}
	return nil
}

// ---- one execution ------------------------------------------------------------------------

// viaSeq lets a named and bound Sequence assemble the node from its children.
func (r *c13Run) viaSeq(id int, kids []parsley.Node, interp parsley.Interpreter) parsley.Node {
	ps := make([]parsley.Parser, len(kids))
	for i := range kids {
		k := kids[i]
		ps[i] = parser.Func(func(*parsley.Context, data.IntMap, parsley.Pos) (parsley.Node, data.IntSet, parsley.Error) {
			return k, data.EmptyIntSet, nil
		})
	}
	seq := combinator.SeqOf(ps...).Token("NT").Name(fmt.Sprintf("n%d", id))
	if interp != nil {
		seq = seq.Bind(interp)
	}
	n, _, err := seq.Parse(r.seqCtx, data.EmptyIntMap, r.seqCtx.Reader().Pos(0))
	if nt, ok := n.(*ast.NonTerminalNode); ok && err == nil {
		return nt
	}
	return ast.NewNonTerminalNode("NT", kids, interp) // (a list child: the sequence returned alternatives)
}

type c13Run struct {
	seqCtx  *parsley.Context
	log     []string
	calls   int
	fault   int
	userCtx *c13UserCtx
	ids     map[interface{}]int // pointer identity -> id
	nodes   []parsley.Node      // by id
	nextID  int
}

// callback records one environment callback and tells whether it is the fault point.
func (r *c13Run) callback(kind string, id int, userCtx interface{}, extra string) bool {
	r.calls++
	ok := "ctx-ok"
	if p, is := userCtx.(*c13UserCtx); !is || p != r.userCtx {
		ok = "CTX-WRONG"
	}
	r.log = append(r.log, fmt.Sprintf("%s#%d %s%s", kind, id, ok, extra))
	return r.calls == r.fault
}

func (r *c13Run) replacement(id int) parsley.Node {
	return ast.NewTerminalNode(nil, "REPL", fmt.Sprintf("r%d", id), parsley.Pos(1000+id), parsley.Pos(1000+id))
}

func (r *c13Run) idOf(n parsley.Node) int {
	switch x := n.(type) {
	case ast.EmptyNode:
		return int(x.Pos())
	case ast.NodeList:
		return 0
	case nil:
		return -2
	}
	if id, ok := r.ids[n]; ok {
		return id
	}
	if n.Pos() >= 1000 {
		return int(n.Pos())
	}
	return -1 // a node the harness did not create: the library passed a copy
}

// c13UserCtx is the caller's evaluation context. It also happens to implement
// parsley.NodeTransformerRegistry (a context that knows named transformers, as the
// library's interface suggests a caller may have): the passes documented in C13 never
// consult it - a node is transformed by its OWN interpreter's transformer or not at all.
type c13UserCtx struct{ v int }

func (*c13UserCtx) NodeTransformer(name string) (parsley.NodeTransformer, bool) {
	return parsley.NodeTransformFunc(func(userCtx interface{}, node parsley.Node) (parsley.Node, parsley.Error) {
		return ast.NewTerminalNode(nil, "HIJACKED", "by the registry of the user context: "+name, node.Pos(), node.ReaderPos()), nil
	}), true
}

type hInterp struct {
	run  *c13Run
	kind string
}

func (h *hInterp) Eval(userCtx interface{}, node parsley.NonTerminalNode) (interface{}, parsley.Error) {
	id := h.run.idOf(node)
	if h.run.callback("eval", id, userCtx, "") {
		return nil, parsley.NewErrorf(parsley.Pos(id), "fault@%d", id)
	}
	var sb strings.Builder
	sb.WriteString("(")
	for _, c := range node.Children() {
		v, err := parsley.EvaluateNode(userCtx, c)
		if err != nil {
			return nil, err
		}
		sb.WriteString(canon(v) + " ")
	}
	return sb.String() + ")", nil
}

func schemaStr(s interface{}) string {
	if s == nil {
		return "nil"
	}
	return fmt.Sprint(s)
}

type hChecker struct{ hInterp }

func (h *hChecker) StaticCheck(userCtx interface{}, node parsley.NonTerminalNode) (interface{}, parsley.Error) {
	id := h.run.idOf(node)
	var seen []string
	for _, c := range node.Children() {
		seen = append(seen, schemaStr(c.Schema()))
	}
	if h.run.callback("check", id, userCtx, " sees["+strings.Join(seen, ",")+"]") {
		return nil, parsley.NewErrorf(parsley.Pos(id), "fault@%d", id)
	}
	if id%2 == 1 {
		return mapSchema{"id": id}, nil // a schema of an uncomparable Go type (a JSON-schema-like map)
	}
	return fmt.Sprintf("S%d", id), nil
}

// mapSchema renders like the string schemas but cannot be compared with ==.
type mapSchema map[string]int

func (m mapSchema) String() string { return fmt.Sprintf("S%d", m["id"]) }

type hTransformer struct{ hInterp }

// TransformNode: "transformer"/"both" return a replacement, "...-same" hands back the very
// node it was given (a transformer that declines), "transformer-child" returns the node's
// first child untransformed. In every case the transformer owns the subtree: the
// library must not descend into the children itself.
func (h *hTransformer) TransformNode(userCtx interface{}, node parsley.Node) (parsley.Node, parsley.Error) {
	id := h.run.idOf(node)
	if h.run.callback("tnode", id, userCtx, "") {
		return nil, parsley.NewErrorf(parsley.Pos(id), "fault@%d", id)
	}
	switch h.kind {
	case "transformer-same", "both-same":
		return node, nil
	case "transformer-child":
		return node.(parsley.NonTerminalNode).Children()[0], nil
	}
	return h.run.replacement(id), nil
}

type hBoth struct {
	hInterp
}

func (h *hBoth) StaticCheck(userCtx interface{}, node parsley.NonTerminalNode) (interface{}, parsley.Error) {
	return (&hChecker{h.hInterp}).StaticCheck(userCtx, node)
}
func (h *hBoth) TransformNode(userCtx interface{}, node parsley.Node) (parsley.Node, parsley.Error) {
	return (&hTransformer{h.hInterp}).TransformNode(userCtx, node)
}

// hNilBoth is used through a nil pointer; its methods work for the run in c13Cur.
type hNilBoth struct{ _ int }

var c13Cur *c13Run

func (*hNilBoth) Eval(userCtx interface{}, node parsley.NonTerminalNode) (interface{}, parsley.Error) {
	return (&hInterp{c13Cur, "both"}).Eval(userCtx, node)
}
func (*hNilBoth) StaticCheck(userCtx interface{}, node parsley.NonTerminalNode) (interface{}, parsley.Error) {
	return (&hChecker{hInterp{c13Cur, "both"}}).StaticCheck(userCtx, node)
}
func (*hNilBoth) TransformNode(userCtx interface{}, node parsley.Node) (parsley.Node, parsley.Error) {
	return (&hTransformer{hInterp{c13Cur, "both"}}).TransformNode(userCtx, node)
}

func (r *c13Run) interp(t *TNode) parsley.Interpreter {
	switch t.Interp {
	case "plain":
		return &hInterp{r, "plain"}
	case "checker":
		return &hChecker{hInterp{r, "checker"}}
	case "transformer", "transformer-same", "transformer-child":
		return &hTransformer{hInterp{r, t.Interp}}
	case "both", "both-same":
		return &hBoth{hInterp{r, t.Interp}}
	case "both-nilptr":
		// an interface holding a NIL pointer of a type whose methods never touch the receiver:
		// a perfectly good interpreter with all three capabilities
		var p *hNilBoth
		return p
	case "select0":
		return interpreter.Select(0)
	case "selectlast":
		return interpreter.Select(len(t.Kids) - 1)
	case "array":
		return interpreter.Array()
	case "libnil":
		return interpreter.Nil()
	case "object":
		return interpreter.Object()
	}
	return nil
}

func (r *c13Run) build(t *TNode) parsley.Node {
	r.nextID++
	id := r.nextID
	var kids []parsley.Node
	var n parsley.Node
	place := len(r.nodes)
	r.nodes = append(r.nodes, nil)
	for i := range t.Kids {
		kids = append(kids, r.build(&t.Kids[i]))
	}
	switch t.Kind {
	case "term":
		n = ast.NewTerminalNode(fmt.Sprintf("T%d", id), "T", fmt.Sprintf("v%d", id), parsley.Pos(id), parsley.Pos(id))
	case "lit":
		n = terminal.NewIntegerNode("int", int64(id), parsley.Pos(id), parsley.Pos(id))
	case "empty":
		n = ast.EmptyNode(parsley.Pos(id))
	case "walkable":
		n = &walkableNode{hNode{r, id, "walkable", kids}}
	case "walknt":
		n = &walkNTNode{hNode{r, id, "walknt", kids}}
	case "wrapnt":
		n = &wrapNTNode{NonTerminalNode: ast.NewEmptyNonTerminalNode("INNER", parsley.Pos(id), nil), run: r, id: id, kids: kids}
	case "xformable":
		n = &xformableNode{hNode{r, id, "xformable", nil}}
	case "litxform":
		n = &litXformNode{xformableNode{hNode{r, id, "litxform", nil}}}
	case "litwalk":
		n = &litWalkNode{walkableNode{hNode{r, id, "litwalk", kids}}}
	case "checkable":
		n = &checkableNode{hNode{r, id, "checkable", nil}}
	case "list":
		n = ast.NodeList(kids)
	case "nt":
		if len(kids) == 0 {
			n = ast.NewEmptyNonTerminalNode("NT", parsley.Pos(id), r.interp(t))
		} else if t.ViaSeq && r.seqCtx != nil {
			n = r.viaSeq(id, kids, r.interp(t))
		} else {
			n = ast.NewNonTerminalNode("NT", kids, r.interp(t))
		}
	}
	if t.Kind != "empty" && t.Kind != "list" {
		r.ids[n] = id
	}
	r.nodes[place] = n
	return n
}

// ---- reference model ----------------------------------------------------------------------------

type c13Model struct {
	log    []string
	calls  int
	fault  int
	nextID int
	schema map[int]string // id -> schema set by the pass
}

func (m *c13Model) callback(kind string, id int, extra string) bool {
	m.calls++
	m.log = append(m.log, fmt.Sprintf("%s#%d ctx-ok%s", kind, id, extra))
	return m.calls == m.fault
}

// mTree is the plain tree with ids assigned in the same pre-order as the builder.
type mTree struct {
	t    *TNode
	id   int
	kids []*mTree
}

func (m *c13Model) index(t *TNode) *mTree {
	m.nextID++
	x := &mTree{t: t, id: m.nextID}
	for i := range t.Kids {
		x.kids = append(x.kids, m.index(&t.Kids[i]))
	}
	return x
}

func (x *mTree) isNT() bool { return x.t.Kind == "nt" }

func (x *mTree) hasChecker() bool {
	switch x.t.Interp {
	case "checker", "both", "both-same", "select0", "selectlast", "both-nilptr":
		return x.isNT()
	}
	return false
}

func (x *mTree) hasTransformer() bool {
	switch x.t.Interp {
	case "transformer", "both", "transformer-same", "both-same", "transformer-child", "both-nilptr":
		return x.isNT()
	}
	return false
}

// initial (constructor-given) schema of a node
func (x *mTree) schema0() string {
	switch x.t.Kind {
	case "term":
		return fmt.Sprintf("T%d", x.id)
	case "lit":
		return "int"
	}
	return "nil"
}

func (m *c13Model) schemaOf(x *mTree) string {
	if x.t.Kind == "list" {
		return "nil"
	}
	if s, ok := m.schema[x.id]; ok {
		return s
	}
	return x.schema0()
}

// walk: Walkable delegate or children first, then the node; stop at the first true.
func (m *c13Model) walk(x *mTree, visit func(*mTree) bool) bool {
	switch x.t.Kind {
	case "walkable", "walknt", "litwalk":
		for i := len(x.kids) - 1; i >= 0; i-- {
			if m.walk(x.kids[i], visit) {
				return true
			}
		}
	case "list":
		if m.walk(x.kids[0], visit) {
			return true
		}
	case "nt", "wrapnt":
		for _, k := range x.kids {
			if m.walk(k, visit) {
				return true
			}
		}
	}
	return visit(x)
}

func mID(x *mTree) int {
	if x.t.Kind == "list" {
		return 0
	}
	return x.id
}

func (m *c13Model) runWalk(root *mTree) string {
	res := m.walk(root, func(x *mTree) bool { return m.callback("visit", mID(x), "") })
	return fmt.Sprint("walk=", res)
}

func (m *c13Model) runCheck(root *mTree) string {
	errStr := "-"
	m.walk(root, func(x *mTree) bool {
		switch {
		case x.t.Kind == "checkable":
			if m.callback("scheck", x.id, "") {
				errStr = fmt.Sprintf("%d:fault@%d", x.id, x.id)
				return true
			}
		case x.hasChecker():
			switch x.t.Interp {
			case "select0":
				m.schema[x.id] = m.schemaOf(x.kids[0])
			case "selectlast":
				m.schema[x.id] = m.schemaOf(x.kids[len(x.kids)-1])
			default:
				var seen []string
				for _, k := range x.kids {
					seen = append(seen, m.schemaOf(k))
				}
				if m.callback("check", x.id, " sees["+strings.Join(seen, ",")+"]") {
					errStr = fmt.Sprintf("%d:fault@%d", x.id, x.id)
					return true
				}
				m.schema[x.id] = fmt.Sprintf("S%d", x.id)
			}
		}
		return false
	})
	return "check=" + errStr
}

// transform returns the node the pass hands back (the model tree is updated in place,
// as the documented behaviour is "rebuilds the children") and an error string.
func (m *c13Model) transform(x *mTree) (*mTree, string) {
	repl := func() *mTree { return &mTree{t: &TNode{Kind: "repl"}, id: 1000 + x.id} }
	switch {
	case x.t.Kind == "xformable" || x.t.Kind == "litxform":
		if m.callback("xform", x.id, "") {
			return nil, fmt.Sprintf("%d:fault@%d", x.id, x.id)
		}
		return repl(), ""
	case x.hasTransformer():
		if m.callback("tnode", x.id, "") {
			return nil, fmt.Sprintf("%d:fault@%d", x.id, x.id)
		}
		switch x.t.Interp {
		case "transformer-same", "both-same":
			return x, "" // the node itself, its subtree untouched
		case "transformer-child":
			return x.kids[0], ""
		}
		return repl(), ""
	case x.isNT():
		for i, k := range x.kids {
			nk, e := m.transform(k)
			if e != "" {
				return nil, e
			}
			x.kids[i] = nk
		}
		return x, ""
	}
	return x, ""
}

// shape renders an untransformed subtree.
func (m *c13Model) shape(x *mTree) string {
	switch x.t.Kind {
	case "nt":
		var parts []string
		for _, k := range x.kids {
			parts = append(parts, m.shape(k))
		}
		return fmt.Sprintf("nt%d[%s]", x.id, strings.Join(parts, " "))
	case "list":
		var parts []string
		for _, k := range x.kids {
			parts = append(parts, m.shape(k))
		}
		return "list[" + strings.Join(parts, " ") + "]"
	case "repl":
		return fmt.Sprintf("R%d", x.id)
	}
	return fmt.Sprintf("%s%d", x.t.Kind, x.id)
}

type mPanic string

// eval returns the canonical value rendering or an error string.
func (m *c13Model) eval(x *mTree) (interface{}, string) {
	noValue := func(pos int) (interface{}, string) {
		return nil, fmt.Sprintf("%d:node does not have a value", pos)
	}
	switch x.t.Kind {
	case "term":
		return fmt.Sprintf("v%d", x.id), ""
	case "repl":
		return fmt.Sprintf("r%d", x.id-1000), ""
	case "lit":
		return int64(x.id), ""
	case "litxform":
		return fmt.Sprintf("lx%d", x.id), ""
	case "litwalk":
		return fmt.Sprintf("lw%d", x.id), ""
	case "empty", "walkable", "xformable", "checkable":
		return noValue(x.id)
	case "walknt", "wrapnt":
		if m.callback("eval", x.id, "") {
			return nil, fmt.Sprintf("%d:fault@%d", x.id, x.id)
		}
		var sb strings.Builder
		sb.WriteString("(")
		for _, k := range x.kids {
			v, e := m.eval(k)
			if e != "" {
				return nil, e
			}
			sb.WriteString(canon(v) + " ")
		}
		return sb.String() + ")", ""
	case "list":
		return noValue(m.posOf(x.kids[0]))
	}
	switch x.t.Interp {
	case "":
		panic(mPanic("missing interpreter for node"))
	case "select0":
		return m.eval(x.kids[0])
	case "selectlast":
		return m.eval(x.kids[len(x.kids)-1])
	case "libnil":
		return nil, ""
	case "array":
		res := make([]interface{}, (len(x.kids)+1)/2)
		for i := 0; i < len(x.kids); i += 2 {
			v, e := m.eval(x.kids[i])
			if e != "" {
				return nil, e
			}
			res[i/2] = v
		}
		return res, ""
	case "object":
		res := map[string]interface{}{}
		for i := 0; i < len(x.kids); i += 2 {
			kv := x.kids[i]
			if !kv.isNT() || len(kv.kids) < 3 {
				// an earlier Transform replaced the key-value node: the Object interpreter's
				// precondition no longer holds, it panics (any message)
				panic(mPanic("*"))
			}
			k, e := m.eval(kv.kids[0])
			if e != "" {
				return nil, e
			}
			v, e := m.eval(kv.kids[2])
			if e != "" {
				return nil, e
			}
			ks, isStr := k.(string)
			if !isStr {
				panic(mPanic("*"))
			}
			res[ks] = v
		}
		return res, ""
	}
	if m.callback("eval", x.id, "") {
		return nil, fmt.Sprintf("%d:fault@%d", x.id, x.id)
	}
	var sb strings.Builder
	sb.WriteString("(")
	for _, k := range x.kids {
		v, e := m.eval(k)
		if e != "" {
			return nil, e
		}
		sb.WriteString(canon(v) + " ")
	}
	return sb.String() + ")", ""
}

// posOf: Pos() of the real node built from x.
func (m *c13Model) posOf(x *mTree) int {
	if (x.t.Kind == "nt" || x.t.Kind == "list") && len(x.kids) > 0 {
		return m.posOf(x.kids[0])
	}
	return x.id
}

// ---- comparison ----------------------------------------------------------------------------------

func (r *c13Run) shape(n parsley.Node) string {
	switch x := n.(type) {
	case nil:
		return "<nil>"
	case ast.NodeList:
		var parts []string
		for _, k := range x {
			parts = append(parts, r.shape(k))
		}
		return "list[" + strings.Join(parts, " ") + "]"
	case ast.EmptyNode:
		return fmt.Sprintf("empty%d", x.Pos())
	case *ast.NonTerminalNode:
		var parts []string
		for _, k := range x.Children() {
			parts = append(parts, r.shape(k))
		}
		return fmt.Sprintf("nt%d[%s]", r.idOf(n), strings.Join(parts, " "))
	case *hNode:
		return fmt.Sprintf("%s%d", x.kind, x.id)
	case *walkableNode:
		return fmt.Sprintf("walkable%d", x.id)
	case *litWalkNode:
		return fmt.Sprintf("litwalk%d", x.id)
	case *litXformNode:
		return fmt.Sprintf("litxform%d", x.id)
	case *walkNTNode:
		return fmt.Sprintf("walknt%d", x.id)
	case *wrapNTNode:
		return fmt.Sprintf("wrapnt%d", x.id)
	case *xformableNode:
		return fmt.Sprintf("xformable%d", x.id)
	case *checkableNode:
		return fmt.Sprintf("checkable%d", x.id)
	case *terminal.IntegerNode:
		return fmt.Sprintf("lit%d", r.idOf(n))
	case *ast.TerminalNode:
		if x.Pos() >= 1000 {
			return fmt.Sprintf("R%d", x.Pos())
		}
		return fmt.Sprintf("term%d", r.idOf(n))
	}
	return fmt.Sprintf("?%T", n)
}

func errStr(e parsley.Error) string {
	if e == nil {
		return "-"
	}
	return fmt.Sprintf("%d:%s", e.Pos(), e.Error())
}

// execute runs one (pass, fault) on a fresh real tree and on the model and compares.
// It returns the number of callbacks of the run and a description of any mismatch.
func c13Execute(tree *TNode, pass string, fault int) (calls int, mismatch string) {
	cs, mm := c13ExecuteSeq(tree, []c13Step{{pass, fault}})
	return cs[0], mm
}

// kidsOfReal lists the children the harness can see of a real node.
func kidsOfReal(n parsley.Node) []parsley.Node {
	switch x := n.(type) {
	case ast.NodeList:
		return x
	case *walkableNode:
		return x.kids
	case *litWalkNode:
		return x.kids
	case *walkNTNode:
		return x.kids
	case *wrapNTNode:
		return x.kids
	case parsley.NonTerminalNode:
		return x.Children()
	}
	return nil
}

// c13ExecuteSeq applies the steps one after the other to ONE real tree and to the model
// and compares after every step: result, callback log, Schema() of every node.
func c13ExecuteSeq(tree *TNode, steps []c13Step) (calls []int, mismatch string) {
	ctxv := c13UserCtx{}
	r := &c13Run{userCtx: &ctxv, ids: map[interface{}]int{}}
	c13Cur = r
	sf := text.NewFile("seq", []byte("x"))
	r.seqCtx = parsley.NewContext(parsley.NewFileSet(sf), text.NewReader(sf))
	root := r.build(tree)
	m := &c13Model{schema: map[int]string{}}
	mroot := m.index(tree)
	calls = make([]int, len(steps))
	for si, st := range steps {
		pass := st.Pass
		r.log, r.calls, r.fault = nil, 0, st.Fault
		m.log, m.calls, m.fault = nil, 0, st.Fault
		where := ""
		if len(steps) > 1 {
			where = fmt.Sprintf("step %d (%s, fault %d) of the sequence %v on one tree: ", si+1, pass, st.Fault, steps)
		}
		var got, want string
		var newRoot parsley.Node
		var newMRoot *mTree
		pipelineCheckFailed := false
		func() {
			defer func() {
				if p := recover(); p != nil {
					got = fmt.Sprintf("panic:%v", p)
				}
			}()
			switch pass {
			case "walk":
				res := parsley.Walk(root, func(n parsley.Node) bool { return r.callback("visit", r.idOf(n), r.userCtx, "") })
				got = fmt.Sprint("walk=", res)
			case "check":
				got = "check=" + errStr(parsley.StaticCheck(r.userCtx, root))
			case "transform":
				n, err := parsley.Transform(r.userCtx, root)
				if err != nil {
					got = "transform-err=" + errStr(err)
					if n != nil {
						got += " with-node"
					}
				} else {
					got = "transform=" + r.shape(n)
					newRoot = n
				}
			case "eval":
				v, err := parsley.EvaluateNode(r.userCtx, root)
				if err != nil {
					got = "eval-err=" + errStr(err)
				} else {
					got = "eval=" + canon(v)
				}
			case "pipeline":
				// parsley.Parse with transformation and static checking enabled: a parser
				// that returns the tree, then Transform, then StaticCheck, errors rendered
				// through the file set
				f := text.NewFile("in", []byte(strings.Repeat("x", 2400)))
				ctx := parsley.NewContext(parsley.NewFileSet(f), text.NewReader(f))
				ctx.SetUserContext(r.userCtx)
				ctx.EnableTransformation()
				ctx.EnableStaticCheck()
				tree := root
				n, err := parsley.Parse(ctx, parser.Func(func(ctx *parsley.Context, _ data.IntMap, _ parsley.Pos) (parsley.Node, data.IntSet, parsley.Error) {
					// like every real combinator, the parser leaves the error of an abandoned
					// attempt in the context although it succeeded - further along than any node
					ctx.SetError(parsley.NewErrorf(f.Pos(2390), "was expecting something else"))
					return tree, data.EmptyIntSet, nil
				}))
				if err != nil {
					got = "pipeline-err=" + err.Error()
				} else {
					got = "pipeline=" + r.shape(n)
					newRoot = n
				}
			case "evalpipe":
				// parsley.Evaluate: the same kind of parser, then the evaluation of its result
				f := text.NewFile("in", []byte(strings.Repeat("x", 2400)))
				ctx := parsley.NewContext(parsley.NewFileSet(f), text.NewReader(f))
				ctx.SetUserContext(r.userCtx)
				tree := root
				v, err := parsley.Evaluate(ctx, parser.Func(func(ctx *parsley.Context, _ data.IntMap, _ parsley.Pos) (parsley.Node, data.IntSet, parsley.Error) {
					ctx.SetError(parsley.NewErrorf(f.Pos(2390), "was expecting something else"))
					return tree, data.EmptyIntSet, nil
				}))
				if err != nil {
					got = "evalpipe-err=" + err.Error()
				} else {
					got = "evalpipe=" + canon(v)
				}
			}
		}()
		func() {
			defer func() {
				if p := recover(); p != nil {
					if mp, ok := p.(mPanic); ok {
						want = "panic:" + string(mp)
						return
					}
					panic(p)
				}
			}()
			switch pass {
			case "walk":
				want = m.runWalk(mroot)
			case "check":
				want = m.runCheck(mroot)
			case "transform":
				nr, e := m.transform(mroot)
				if e != "" {
					want = "transform-err=" + e
				} else {
					want = "transform=" + m.shape(nr)
					newMRoot = nr
				}
			case "eval":
				v, e := m.eval(mroot)
				if e != "" {
					want = "eval-err=" + e
				} else {
					want = "eval=" + canon(v)
				}
			case "evalpipe":
				v, e := m.eval(mroot)
				if e != "" {
					i := strings.Index(e, ":")
					want = "evalpipe-err=" + e[i+1:] + " at in:1:" + e[:i]
				} else {
					want = "evalpipe=" + canon(v)
				}
			case "pipeline":
				rendered := func(e string) string { // "pos:msg" -> "msg at in:1:pos"
					i := strings.Index(e, ":")
					return e[i+1:] + " at in:1:" + e[:i]
				}
				nr, e := m.transform(mroot)
				if e != "" {
					want = "pipeline-err=" + rendered(e)
					break
				}
				newMRoot = nr
				if ce := strings.TrimPrefix(m.runCheck(nr), "check="); ce != "-" {
					want = "pipeline-err=" + rendered(ce)
					pipelineCheckFailed = true
					break
				}
				want = "pipeline=" + m.shape(nr)
			}
		}()
		calls[si] = r.calls
		if want == "panic:*" && strings.HasPrefix(got, "panic:") {
			return calls, ""
		}
		if got != want {
			return calls, where + fmt.Sprintf("result differs: got %s, documented %s", clip(got), clip(want))
		}
		if strings.HasPrefix(want, "panic:") {
			return calls, ""
		}
		gl, wl := strings.Join(r.log, "; "), strings.Join(m.log, "; ")
		if gl != wl {
			return calls, where + fmt.Sprintf("callback sequence differs:\n  got        %s\n  documented %s", clip(gl), clip(wl))
		}
		if pass == "transform" || pass == "pipeline" {
			if pipelineCheckFailed {
				// Transform succeeded, StaticCheck failed: Parse returns no node; the tree
				// the model transformed is the one the library transformed in place, but the
				// returned root is lost, so the sequence ends here
				return calls, ""
			}
			if newRoot == nil || newMRoot == nil {
				// aborted Transform: the partial in-place state below the root is not asserted and
				// the sequence ends - unless it was the ROOT's own transformer that failed (the
				// first callback): then nothing has been touched and the history goes on
				ownFailed := pass == "transform" && st.Fault == 1 && (mroot.hasTransformer() || mroot.t.Kind == "xformable" || mroot.t.Kind == "litxform")
				if !ownFailed {
					return calls, ""
				}
			} else {
				root, mroot = newRoot, newMRoot
			}
		}
		// Schema() of every node of the current tree: set before the fault, untouched after
		var cmp func(n parsley.Node, x *mTree) string
		cmp = func(n parsley.Node, x *mTree) string {
			if x.t.Kind != "list" {
				if g, w := schemaStr(n.Schema()), m.schemaOf(x); g != w {
					return fmt.Sprintf("Schema() of node %d (%s) is %s, documented %s", x.id, x.t.Kind, g, w)
				}
			}
			ks := kidsOfReal(n)
			if len(ks) != len(x.kids) {
				return fmt.Sprintf("node %d (%s) has %d children, documented %d", x.id, x.t.Kind, len(ks), len(x.kids))
			}
			for i, k := range x.kids {
				if d := cmp(ks[i], k); d != "" {
					return d
				}
			}
			return ""
		}
		if d := cmp(root, mroot); d != "" {
			return calls, where + d
		}
	}
	return calls, ""
}

var c13Passes = []string{"walk", "check", "transform", "eval", "pipeline", "evalpipe"}

func (*c13Prop) Run(cc Case) Verdict {
	c := cc.(*c13Case)
	v := Verdict{Probes: map[string]int64{}, Faults: map[string]int64{}}
	runSeq := func(steps []c13Step) bool {
		cs, mm := c13ExecuteSeq(&c.Tree, steps)
		v.Probes["executions"]++
		v.Probes["pass_sequences_on_one_tree"]++
		for i, st := range steps {
			v.Steps += int64(cs[i]) + 1
			if st.Fault > 0 {
				v.Faults["callback_failure:"+st.Pass]++
			}
		}
		if mm != "" {
			v.Violation, v.Class = true, "seq:"+steps[len(steps)-1].Pass
			v.Detail = mm
			c.Seq = steps
			return false
		}
		return true
	}
	if len(c.Seq) > 0 {
		for _, st := range c.Seq {
			ok := false
			for _, p := range c13Passes {
				ok = ok || p == st.Pass
			}
			if !ok {
				v.Discard = "bad-sequence"
				return v
			}
		}
		runSeq(append([]c13Step(nil), c.Seq...))
		v.Fingerprint = c.Tree.hash(0)
		return v
	}
	passes := c13Passes
	if c.Pass != "" {
		passes = []string{c.Pass}
	}
	nodes := c.Tree.count()
	points := 0
	for _, pass := range passes {
		lo, hi := 0, -1
		if c.Pass != "" && c.Fault >= 0 {
			lo, hi = c.Fault, c.Fault
		}
		n, mm := 0, ""
		if lo == 0 {
			n, mm = c13Execute(&c.Tree, pass, 0)
			v.Steps += int64(n) + 1
			v.Probes["executions"]++
			if hi == -1 {
				hi = n
			}
			lo = 1
			if mm != "" {
				v.Violation, v.Class = true, "pass:"+pass
				v.Detail = fmt.Sprintf("%s, fault-free: %s", pass, mm)
				c.Pass, c.Fault = pass, 0
				return v
			}
			points += n
		}
		for k := lo; k <= hi; k++ {
			n, mm = c13Execute(&c.Tree, pass, k)
			v.Steps += int64(n) + 1
			v.Probes["executions"]++
			v.Faults["callback_failure:"+pass]++
			if mm != "" {
				v.Violation, v.Class = true, "pass:"+pass
				v.Detail = fmt.Sprintf("%s with the failure injected at callback %d: %s", pass, k, mm)
				c.Pass, c.Fault = pass, k
				return v
			}
		}
	}
	// pass sequences on ONE tree object (only when all passes are enumerated)
	if c.Pass == "" {
		nCheck, _ := c13Execute(&c.Tree, "check", 0)
		v.Probes["executions"]++
		var seqs [][]c13Step
		for k := 1; k <= nCheck; k++ {
			seqs = append(seqs, []c13Step{{"check", k}, {"check", 0}}) // aborted pass, then a clean one
			seqs = append(seqs, []c13Step{{"check", 0}, {"check", k}}) // second pass with a failure
		}
		nEval, _ := c13Execute(&c.Tree, "eval", 0)
		v.Probes["executions"]++
		for k := 1; k <= nEval; k++ {
			seqs = append(seqs, []c13Step{{"eval", k}, {"eval", 0}}) // failed evaluation, then a clean one
		}
		// a failed transformation, then a clean one on the same (partly transformed) tree
		nXf, _ := c13Execute(&c.Tree, "transform", 0)
		for k := 1; k <= nXf && k <= 6; k++ {
			seqs = append(seqs, []c13Step{{"transform", k}, {"transform", 0}})
		}
		seqs = append(seqs,
			[]c13Step{{"eval", 0}, {"eval", 0}},
			[]c13Step{{"walk", 0}, {"walk", 0}},
			[]c13Step{{"check", 0}, {"check", 0}},
			[]c13Step{{"transform", 0}, {"check", 0}},
			[]c13Step{{"transform", 0}, {"eval", 0}},
			[]c13Step{{"transform", 0}, {"walk", 0}},
			[]c13Step{{"transform", 0}, {"transform", 0}},
			[]c13Step{{"check", 0}, {"transform", 0}, {"check", 0}},
			[]c13Step{{"walk", 0}, {"check", 0}, {"eval", 0}},
			[]c13Step{{"eval", 0}, {"walk", 1}, {"check", 0}},
			[]c13Step{{"pipeline", 0}, {"eval", 0}},
			[]c13Step{{"pipeline", 0}, {"evalpipe", 0}},
			[]c13Step{{"evalpipe", 0}, {"evalpipe", 0}},
			[]c13Step{{"pipeline", 0}, {"pipeline", 0}},
			[]c13Step{{"check", 0}, {"pipeline", 0}, {"walk", 0}},
		)
		for _, sq := range seqs {
			if !runSeq(sq) {
				return v
			}
		}
	}
	v.Probes["tree_nodes"] += int64(nodes)
	v.Fingerprint = c.Tree.hash(0)
	v.Nontrivial = nodes >= 3 && points >= 2
	return v
}

func (*c13Prop) Shrink(cc Case) []Case {
	c := cc.(*c13Case)
	var out []Case
	mk := func(t TNode) {
		k := &c13Case{Tree: t, Pass: c.Pass, Fault: -1, Seq: c.Seq}
		if k.Tree.valid(true) == nil {
			out = append(out, k)
		}
	}
	// a sequence may fail with fewer steps or without the injected failures
	if len(c.Seq) > 1 {
		for i := range c.Seq {
			k := &c13Case{Tree: c.Tree, Fault: -1, Seq: append(append([]c13Step(nil), c.Seq[:i]...), c.Seq[i+1:]...)}
			out = append(out, k)
		}
	}
	for i, st := range c.Seq {
		if st.Fault > 0 {
			k := &c13Case{Tree: c.Tree, Fault: -1, Seq: append([]c13Step(nil), c.Seq...)}
			k.Seq[i].Fault = 0
			out = append(out, k)
		}
	}
	// a subtree as the new root
	for _, k := range c.Tree.Kids {
		mk(k)
	}
	// edit one node somewhere in the tree
	var edits func(t *TNode, rebuild func(TNode) TNode)
	edits = func(t *TNode, rebuild func(TNode) TNode) {
		for i := range t.Kids {
			// drop kid i
			nt := *t
			nt.Kids = append(append([]TNode(nil), t.Kids[:i]...), t.Kids[i+1:]...)
			mk(rebuild(nt))
			// replace kid i by a terminal
			if t.Kids[i].Kind != "term" {
				nt2 := *t
				nt2.Kids = append([]TNode(nil), t.Kids...)
				nt2.Kids[i] = TNode{Kind: "term"}
				mk(rebuild(nt2))
			}
			// hoist grandchildren
			for _, g := range t.Kids[i].Kids {
				nt3 := *t
				nt3.Kids = append([]TNode(nil), t.Kids...)
				nt3.Kids[i] = g
				mk(rebuild(nt3))
			}
		}
		if t.Kind == "nt" && t.Interp != "" && t.Interp != "plain" {
			nt := *t
			nt.Interp = "plain"
			mk(rebuild(nt))
		}
		for i := range t.Kids {
			i := i
			edits(&t.Kids[i], func(n TNode) TNode {
				nt := *t
				nt.Kids = append([]TNode(nil), t.Kids...)
				nt.Kids[i] = n
				return rebuild(nt)
			})
		}
	}
	edits(&c.Tree, func(n TNode) TNode { return n })
	if len(out) > 400 {
		out = out[:400]
	}
	return out
}
