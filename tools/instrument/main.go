// instrument rewrites a scratch copy of the repository under test in place so that the
// simulator owns every source of nondeterminism the claimed properties depend on.
// It never touches /repo: ./check copies the working tree first (DESIGN.md section 3.1).
//
//   - yield points  __sim.Yield(site)  at function / func-literal entry, at the top of
//     every loop body and before every simple statement that mentions a package-level
//     variable of the module or writes through an index / field / pointer / append /
//     copy / delete (the places where two callers can meet in shared memory);
//   - every range over a map becomes a range over a key slice produced by
//     __sim.MapKeys (canonical order permuted by the run's PRNG), with a presence
//     re-check per key;
//   - sync.Mutex / RWMutex Lock and RLock statements become TryLock / yield loops,
//     sync.Once.Do runs inside a no-yield region;
//   - a generated zz_sim_roots.go per package registers the address of every
//     package-level variable (shared-root snapshot oracle);
//   - go statements in library code are refused (exit 2): a goroutine the simulator does
//     not schedule would make verdicts unreplayable. select / channel operations /
//     time and math/rand calls are listed in the site table as warnings.
//
// usage: instrument <root of scratch copy>
package main

import (
	"bytes"
	"encoding/json"
	"fmt"
	"go/ast"
	"go/format"
	"go/parser"
	"go/token"
	"go/types"
	"os"
	"path/filepath"
	"sort"
	"strconv"
	"strings"

	"golang.org/x/tools/go/packages"
)

const simDir = "zzsimrt"

// site kinds (mirrored in zzsimrt)
const (
	kFunc = 1 + iota
	kFuncLit
	kLoop
	kPkgVar
	kWrite
	kLockSpin
	kStmt
)

var kindName = map[int]string{kFunc: "func", kFuncLit: "funclit", kLoop: "loop", kPkgVar: "pkgvar", kWrite: "write", kLockSpin: "lockspin", kStmt: "stmt"}

type site struct {
	ID   int    `json:"id"`
	Pos  string `json:"pos"`
	Kind string `json:"kind"`
	kind int
}

var (
	sites    []site
	warnings []string
	refused  []string
	tmpN     int
)

func fail(format string, a ...interface{}) {
	fmt.Fprintf(os.Stderr, "instrument: "+format+"\n", a...)
	os.Exit(2)
}

type rewriter struct {
	p       *packages.Package
	f       *ast.File
	root    string
	modPath string
	changed bool
}

func (r *rewriter) newSite(p token.Pos, kind int) int {
	pp := r.p.Fset.Position(p)
	rel, _ := filepath.Rel(r.root, pp.Filename)
	sites = append(sites, site{len(sites) + 1, fmt.Sprintf("%s:%d", rel, pp.Line), kindName[kind], kind})
	r.changed = true
	return len(sites)
}

func simCall(name string, args ...ast.Expr) *ast.CallExpr {
	return &ast.CallExpr{Fun: &ast.SelectorExpr{X: ast.NewIdent("__sim"), Sel: ast.NewIdent(name)}, Args: args}
}

// lockKey: an expression for the identity of the mutex a Lock / Unlock call works on
// (the pointer itself, or the address of the addressable operand), and 1 for the reader side.
func (r *rewriter) lockKey(recv ast.Expr, name string) (ast.Expr, ast.Expr) {
	var key ast.Expr = recv
	if t := r.p.TypesInfo.TypeOf(recv); t != nil {
		if _, isPtr := t.Underlying().(*types.Pointer); !isPtr {
			key = &ast.UnaryExpr{Op: token.AND, X: recv}
		}
	}
	kind := 0
	if name == "RLock" || name == "RUnlock" {
		kind = 1
	}
	return key, intLit(kind)
}

func intLit(i int) ast.Expr { return &ast.BasicLit{Kind: token.INT, Value: strconv.Itoa(i)} }

func (r *rewriter) yield(p token.Pos, kind int) ast.Stmt {
	return &ast.ExprStmt{X: simCall("Yield", intLit(r.newSite(p, kind)))}
}

// isModulePkgVar reports whether id denotes a package-level variable of the module.
func (r *rewriter) isModulePkgVar(id *ast.Ident) bool {
	v, ok := r.p.TypesInfo.Uses[id].(*types.Var)
	if !ok || v.Pkg() == nil || v.IsField() {
		return false
	}
	return v.Parent() == v.Pkg().Scope() && strings.HasPrefix(v.Pkg().Path(), r.modPath)
}

func (r *rewriter) mentionsPkgVar(n ast.Node) bool {
	found := false
	ast.Inspect(n, func(n ast.Node) bool {
		if found {
			return false
		}
		if _, ok := n.(*ast.FuncLit); ok {
			return false
		}
		if id, ok := n.(*ast.Ident); ok && r.isModulePkgVar(id) {
			found = true
		}
		return true
	})
	return found
}

func isLocalIdent(e ast.Expr) bool {
	_, ok := e.(*ast.Ident)
	return ok
}

// writesShared: assignment / inc-dec whose target is not a plain identifier, or a call
// of append / copy / delete anywhere in the statement (outside nested func literals).
func (r *rewriter) writesShared(s ast.Stmt) bool {
	switch x := s.(type) {
	case *ast.AssignStmt:
		for _, l := range x.Lhs {
			if !isLocalIdent(l) {
				return true
			}
		}
	case *ast.IncDecStmt:
		if !isLocalIdent(x.X) {
			return true
		}
	}
	found := false
	ast.Inspect(s, func(n ast.Node) bool {
		if found {
			return false
		}
		if _, ok := n.(*ast.FuncLit); ok {
			return false
		}
		if c, ok := n.(*ast.CallExpr); ok {
			if id, ok := c.Fun.(*ast.Ident); ok {
				if b, ok := r.p.TypesInfo.Uses[id].(*types.Builtin); ok {
					switch b.Name() {
					case "append", "copy", "delete":
						found = true
					}
				}
			}
		}
		return true
	})
	return found
}

// syncMethod returns the method name if call is x.M() with M a method of a sync type.
func (r *rewriter) syncMethod(call *ast.CallExpr) (recv ast.Expr, typ, name string) {
	sel, ok := call.Fun.(*ast.SelectorExpr)
	if !ok {
		return nil, "", ""
	}
	fn, ok := r.p.TypesInfo.Uses[sel.Sel].(*types.Func)
	if !ok || fn.Pkg() == nil || fn.Pkg().Path() != "sync" {
		return nil, "", ""
	}
	sig, _ := fn.Type().(*types.Signature)
	if sig == nil || sig.Recv() == nil {
		return nil, "", ""
	}
	t := sig.Recv().Type()
	if pt, ok := t.(*types.Pointer); ok {
		t = pt.Elem()
	}
	if nt, ok := t.(*types.Named); ok {
		return sel.X, nt.Obj().Name(), fn.Name()
	}
	return nil, "", ""
}

func (r *rewriter) qualifier(other *types.Package) string {
	if other == r.p.Types {
		return ""
	}
	for _, im := range r.f.Imports {
		if im.Path.Value == strconv.Quote(other.Path()) {
			if im.Name != nil {
				if im.Name.Name == "." {
					return ""
				}
				if im.Name.Name != "_" {
					return im.Name.Name
				}
				continue
			}
			return other.Name()
		}
	}
	tmpN++
	alias := fmt.Sprintf("__imp%d", tmpN)
	addImport(r.f, alias, other.Path())
	return alias
}

// rewriteMapRange turns
//
//	for k, v := range X { body }
//
// into (hoisted, returned as pre):  __mN := X
//
//	for _, __kN := range __sim.MapKeys(__mN).([]K) {
//	    v, __okN := __mN[__kN]; if !__okN { continue }; k := __kN; body }
func (r *rewriter) rewriteMapRange(x *ast.RangeStmt, mt *types.Map) (pre ast.Stmt) {
	tmpN++
	n := strconv.Itoa(tmpN)
	mID, kID, okID := "__m"+n, "__k"+n, "__ok"+n
	kt := types.TypeString(mt.Key(), r.qualifier)
	ktExpr, err := parser.ParseExpr("[]" + kt)
	if err != nil {
		fail("cannot spell map key type %s: %v", kt, err)
	}
	pre = &ast.AssignStmt{Lhs: []ast.Expr{ast.NewIdent(mID)}, Tok: token.DEFINE, Rhs: []ast.Expr{x.X}}
	var head []ast.Stmt
	valLhs := ast.Expr(ast.NewIdent("_"))
	tok := token.DEFINE
	if x.Value != nil {
		valLhs = x.Value
		tok = x.Tok
	}
	if tok == token.ASSIGN {
		head = append(head, &ast.DeclStmt{Decl: &ast.GenDecl{Tok: token.VAR, Specs: []ast.Spec{&ast.ValueSpec{Names: []*ast.Ident{ast.NewIdent(okID)}, Type: ast.NewIdent("bool")}}}})
	}
	head = append(head,
		&ast.AssignStmt{Lhs: []ast.Expr{valLhs, ast.NewIdent(okID)}, Tok: tok, Rhs: []ast.Expr{&ast.IndexExpr{X: ast.NewIdent(mID), Index: ast.NewIdent(kID)}}},
		&ast.IfStmt{Cond: &ast.UnaryExpr{Op: token.NOT, X: ast.NewIdent(okID)}, Body: &ast.BlockStmt{List: []ast.Stmt{&ast.BranchStmt{Tok: token.CONTINUE}}}},
	)
	if x.Key != nil {
		if id, ok := x.Key.(*ast.Ident); !ok || id.Name != "_" {
			head = append(head, &ast.AssignStmt{Lhs: []ast.Expr{x.Key}, Tok: x.Tok, Rhs: []ast.Expr{ast.NewIdent(kID)}})
			if x.Tok == token.DEFINE {
				// avoid "declared but not used" when the body never reads the key
				head = append(head, &ast.AssignStmt{Lhs: []ast.Expr{ast.NewIdent("_")}, Tok: token.ASSIGN, Rhs: []ast.Expr{ast.NewIdent(x.Key.(*ast.Ident).Name)}})
			}
		}
	}
	if x.Value != nil && x.Tok == token.DEFINE {
		if id, ok := x.Value.(*ast.Ident); ok && id.Name != "_" {
			head = append(head, &ast.AssignStmt{Lhs: []ast.Expr{ast.NewIdent("_")}, Tok: token.ASSIGN, Rhs: []ast.Expr{ast.NewIdent(id.Name)}})
		}
	}
	x.Key = ast.NewIdent("_")
	x.Value = ast.NewIdent(kID)
	x.Tok = token.DEFINE
	x.X = &ast.TypeAssertExpr{X: simCall("MapKeys", ast.NewIdent(mID)), Type: ktExpr}
	x.Body.List = append(head, x.Body.List...)
	r.changed = true
	return pre
}

// stmtList rewrites one statement list (block, case clause or comm clause body).
func (r *rewriter) stmtList(list []ast.Stmt) []ast.Stmt {
	var out []ast.Stmt
	for _, s := range list {
		inner := s
		for {
			if l, ok := inner.(*ast.LabeledStmt); ok {
				inner = l.Stmt
				continue
			}
			break
		}
		replaced := false
		var after ast.Stmt
		switch x := inner.(type) {
		case *ast.RangeStmt:
			if t := r.p.TypesInfo.TypeOf(x.X); t != nil {
				if mt, ok := t.Underlying().(*types.Map); ok {
					out = append(out, r.rewriteMapRange(x, mt))
				}
			}
		case *ast.DeferStmt:
			// defer mu.Unlock()  ->  defer func() { __sim.LockReleasing(); mu.Unlock() }()
			if recv, typ, name := r.syncMethod(x.Call); (typ == "Mutex" || typ == "RWMutex") && (name == "Unlock" || name == "RUnlock") && len(x.Call.Args) == 0 {
				key, kind := r.lockKey(recv, name)
				x.Call = &ast.CallExpr{Fun: &ast.FuncLit{Type: &ast.FuncType{Params: &ast.FieldList{}}, Body: &ast.BlockStmt{List: []ast.Stmt{
					&ast.ExprStmt{X: simCall("DeferredUnlock", key, kind, intLit(-1))}, &ast.ExprStmt{X: simCall("LockReleasing", key, kind)}, &ast.ExprStmt{X: x.Call}}}}}
				// registered right AFTER the defer statement (no yield in between): the books
				// never claim a deferred Unlock that is not on the defer stack yet
				after = &ast.ExprStmt{X: simCall("DeferredUnlock", key, kind, intLit(1))}
				r.changed = true
			}
		case *ast.ExprStmt:
			if call, ok := x.X.(*ast.CallExpr); ok {
				recv, typ, name := r.syncMethod(call)
				switch {
				case (typ == "Mutex" || typ == "RWMutex") && (name == "Lock" || name == "RLock") && len(call.Args) == 0 && inner == s:
					try := "TryLock"
					if name == "RLock" {
						try = "TryRLock"
					}
					var cond ast.Expr = &ast.UnaryExpr{Op: token.NOT, X: &ast.CallExpr{Fun: &ast.SelectorExpr{X: recv, Sel: ast.NewIdent(try)}}}
					if typ == "RWMutex" {
						// Go's RWMutex prefers writers: a goroutine blocked in Lock keeps new readers
						// out. A TryLock loop announces nothing, so the simulator keeps the book:
						// a writer registers while it waits, a reader also waits for waiting writers.
						var key ast.Expr = recv
						if t := r.p.TypesInfo.TypeOf(recv); t != nil {
							if _, isPtr := t.Underlying().(*types.Pointer); !isPtr {
								key = &ast.UnaryExpr{Op: token.AND, X: recv}
							}
						}
						if name == "Lock" {
							out = append(out, &ast.ExprStmt{X: simCall("WriterWaiting", key, intLit(1))})
						} else {
							cond = &ast.BinaryExpr{Op: token.LOR, X: simCall("WriterIsWaiting", key), Y: cond}
						}
						out = append(out, &ast.ForStmt{
							Cond: cond,
							Body: &ast.BlockStmt{List: []ast.Stmt{&ast.ExprStmt{X: simCall("YieldSpin", intLit(r.newSite(x.Pos(), kLockSpin)))}}},
						})
						if name == "Lock" {
							out = append(out, &ast.ExprStmt{X: simCall("WriterWaiting", key, intLit(-1))})
						}
					} else {
						out = append(out, &ast.ForStmt{
							Cond: cond,
							Body: &ast.BlockStmt{List: []ast.Stmt{&ast.ExprStmt{X: simCall("YieldSpin", intLit(r.newSite(x.Pos(), kLockSpin)))}}},
						})
					}
					// the simulator never stops a task for good while it holds a lock of the library
					{
						key, kind := r.lockKey(recv, name)
						out = append(out, &ast.ExprStmt{X: simCall("LockAcquired", key, kind)})
					}
					replaced = true
				case (typ == "Mutex" || typ == "RWMutex") && (name == "Unlock" || name == "RUnlock") && len(call.Args) == 0 && inner == s:
					{
						key, kind := r.lockKey(recv, name)
						out = append(out, r.yield(inner.Pos(), kStmt), &ast.ExprStmt{X: simCall("LockReleasing", key, kind)}, s)
					}
					r.changed = true
					replaced = true
				case typ == "Once" && name == "Do" && inner == s:
					out = append(out, &ast.ExprStmt{X: simCall("NoYield", intLit(1))}, s, &ast.ExprStmt{X: simCall("NoYield", intLit(-1))})
					r.changed = true
					replaced = true
				case typ == "WaitGroup" && name == "Wait", typ == "Cond" && name == "Wait":
					warnings = append(warnings, "blocking sync."+typ+"."+name+" at "+r.p.Fset.Position(x.Pos()).String())
				}
			}
		}
		if replaced {
			continue
		}
		switch inner.(type) {
		case *ast.ExprStmt, *ast.AssignStmt, *ast.ReturnStmt, *ast.IncDecStmt, *ast.SendStmt, *ast.DeferStmt:
			if inner == s { // never separate a label from its statement
				if r.mentionsPkgVar(inner) {
					out = append(out, r.yield(inner.Pos(), kPkgVar))
				} else if r.writesShared(inner) {
					out = append(out, r.yield(inner.Pos(), kWrite))
				} else {
					out = append(out, r.yield(inner.Pos(), kStmt))
				}
			}
		case *ast.IfStmt, *ast.SwitchStmt, *ast.TypeSwitchStmt, *ast.ForStmt, *ast.RangeStmt:
			// statement-level granularity: the init / condition of a compound statement may
			// read shared memory
			if inner == s {
				out = append(out, r.yield(inner.Pos(), kStmt))
			}
		}
		out = append(out, s)
		if after != nil {
			out = append(out, after)
		}
	}
	return out
}

func (r *rewriter) file() {
	ast.Inspect(r.f, func(n ast.Node) bool {
		switch x := n.(type) {
		case *ast.GoStmt:
			refused = append(refused, "go statement at "+r.p.Fset.Position(x.Pos()).String())
		case *ast.SelectStmt:
			warnings = append(warnings, "select at "+r.p.Fset.Position(x.Pos()).String())
		case *ast.SelectorExpr:
			// addresses as data: behaviour then depends on the allocator and the garbage collector
			switch x.Sel.Name {
			case "Pointer", "UnsafePointer", "UnsafeAddr":
				if t := r.p.TypesInfo.TypeOf(x.X); t != nil && t.String() == "reflect.Value" {
					warnings = append(warnings, "address used as data: reflect.Value."+x.Sel.Name+" (depends on allocator and GC) at "+r.p.Fset.Position(x.Pos()).String())
				}
			}
			if id, ok := x.X.(*ast.Ident); ok {
				if pn, ok := r.p.TypesInfo.Uses[id].(*types.PkgName); ok {
					if pn.Imported().Path() == "sync" && x.Sel.Name == "Pool" {
						warnings = append(warnings, "sync.Pool (contents depend on GC and scheduling) at "+r.p.Fset.Position(x.Pos()).String())
					}
					if pn.Imported().Path() == "unsafe" && x.Sel.Name == "Pointer" {
						warnings = append(warnings, "address used as data: unsafe.Pointer (depends on allocator and GC) at "+r.p.Fset.Position(x.Pos()).String())
					}
					if pn.Imported().Path() == "runtime" && (x.Sel.Name == "SetFinalizer" || x.Sel.Name == "GC" || x.Sel.Name == "NumGoroutine" || x.Sel.Name == "Gosched") {
						warnings = append(warnings, "runtime."+x.Sel.Name+" (depends on GC and scheduling) at "+r.p.Fset.Position(x.Pos()).String())
					}
					switch pn.Imported().Path() {
					case "math/rand", "crypto/rand":
						warnings = append(warnings, "randomness "+pn.Imported().Path()+"."+x.Sel.Name+" at "+r.p.Fset.Position(x.Pos()).String())
					case "time":
						switch x.Sel.Name {
						case "Now", "Since", "Until", "Sleep", "After", "AfterFunc", "Tick", "NewTimer", "NewTicker":
							warnings = append(warnings, "clock time."+x.Sel.Name+" at "+r.p.Fset.Position(x.Pos()).String())
						}
					}
				}
			}
		}
		return true
	})
	// post-order so that inner lists are rewritten before statements are inserted around them
	var walk func(n ast.Node)
	walk = func(n ast.Node) {
		ast.Inspect(n, func(c ast.Node) bool {
			if c == nil || c == n {
				return true
			}
			walk(c)
			return false
		})
		switch x := n.(type) {
		case *ast.FuncDecl:
			if x.Body != nil {
				x.Body.List = append([]ast.Stmt{r.yield(x.Pos(), kFunc)}, x.Body.List...)
			}
		case *ast.FuncLit:
			x.Body.List = append([]ast.Stmt{r.yield(x.Pos(), kFuncLit)}, x.Body.List...)
		case *ast.ForStmt:
			x.Body.List = append([]ast.Stmt{r.yield(x.Pos(), kLoop)}, x.Body.List...)
		case *ast.RangeStmt:
			x.Body.List = append([]ast.Stmt{r.yield(x.Pos(), kLoop)}, x.Body.List...)
		case *ast.BlockStmt:
			x.List = r.stmtList(x.List)
		case *ast.CaseClause:
			x.Body = r.stmtList(x.Body)
		case *ast.CommClause:
			x.Body = r.stmtList(x.Body)
		}
	}
	walk(r.f)
}

func addImport(f *ast.File, name, path string) {
	if name == "__sim" {
		for _, im := range f.Imports {
			if im.Path.Value == strconv.Quote(path) {
				return
			}
		}
	}
	spec := &ast.ImportSpec{Name: ast.NewIdent(name), Path: &ast.BasicLit{Kind: token.STRING, Value: strconv.Quote(path)}}
	decl := &ast.GenDecl{Tok: token.IMPORT, Specs: []ast.Spec{spec}}
	f.Decls = append([]ast.Decl{decl}, f.Decls...)
	f.Imports = append(f.Imports, spec)
}

// stripBodyComments drops comments located inside function bodies: statements are
// inserted without positions, and go/printer could otherwise place a line comment in
// the middle of rewritten code. Comments outside bodies (build constraints, directives
// in doc comments) are kept.
func stripBodyComments(f *ast.File) {
	type span struct{ a, b token.Pos }
	var bodies []span
	ast.Inspect(f, func(n ast.Node) bool {
		switch x := n.(type) {
		case *ast.FuncDecl:
			if x.Body != nil {
				bodies = append(bodies, span{x.Body.Pos(), x.Body.End()})
			}
		case *ast.FuncLit:
			bodies = append(bodies, span{x.Body.Pos(), x.Body.End()})
		}
		return true
	})
	var keep []*ast.CommentGroup
outer:
	for _, cg := range f.Comments {
		for _, b := range bodies {
			if cg.Pos() >= b.a && cg.End() <= b.b {
				continue outer
			}
		}
		keep = append(keep, cg)
	}
	f.Comments = keep
}

func main() {
	if len(os.Args) != 2 {
		fail("usage: instrument <root>")
	}
	root, _ := filepath.Abs(os.Args[1])
	cfg := &packages.Config{
		Mode: packages.NeedName | packages.NeedFiles | packages.NeedSyntax | packages.NeedTypes | packages.NeedTypesInfo | packages.NeedImports | packages.NeedDeps | packages.NeedModule,
		Dir:  root,
	}
	pkgs, err := packages.Load(cfg, "./...")
	if err != nil {
		fail("load: %v", err)
	}
	sort.Slice(pkgs, func(i, j int) bool { return pkgs[i].PkgPath < pkgs[j].PkgPath })
	modPath := ""
	for _, p := range pkgs {
		if p.Module != nil && p.Module.Main {
			modPath = p.Module.Path
		}
	}
	if modPath == "" {
		fail("cannot determine module path")
	}
	simPath := modPath + "/" + simDir
	roots := map[string][]string{}
	instrumented := 0
	for _, p := range pkgs {
		if len(p.Errors) > 0 {
			fail("type errors in %s: %v", p.PkgPath, p.Errors)
		}
		if strings.HasSuffix(p.PkgPath, "fakes") || p.PkgPath == simPath || p.Name == "main" || strings.HasSuffix(p.PkgPath, "/tools") {
			continue
		}
		instrumented++
		var vars []string
		scope := p.Types.Scope()
		for _, name := range scope.Names() {
			if v, ok := scope.Lookup(name).(*types.Var); ok && v.Name() != "_" {
				vars = append(vars, v.Name())
			}
		}
		roots[p.PkgPath] = vars
		dir := ""
		files := append([]*ast.File(nil), p.Syntax...)
		sort.Slice(files, func(i, j int) bool {
			return p.Fset.Position(files[i].Package).Filename < p.Fset.Position(files[j].Package).Filename
		})
		for _, f := range files {
			fn := p.Fset.Position(f.Package).Filename
			if strings.HasSuffix(fn, "_test.go") {
				continue
			}
			dir = filepath.Dir(fn)
			r := &rewriter{p: p, f: f, root: root, modPath: modPath}
			r.file()
			if !r.changed {
				continue
			}
			addImport(f, "__sim", simPath)
			stripBodyComments(f)
			var buf bytes.Buffer
			if err := format.Node(&buf, p.Fset, f); err != nil {
				fail("format %s: %v", fn, err)
			}
			if err := os.WriteFile(fn, buf.Bytes(), 0644); err != nil {
				fail("write %s: %v", fn, err)
			}
		}
		if dir != "" {
			var b strings.Builder
			fmt.Fprintf(&b, "// Code generated by /verif/tools/instrument. DO NOT EDIT.\n\npackage %s\n\nimport __sim %q\n\nfunc init() {\n\t__sim.RegisterRoots(%q, map[string]interface{}{\n", p.Name, simPath, strings.TrimPrefix(p.PkgPath, modPath+"/"))
			for _, v := range vars {
				fmt.Fprintf(&b, "\t\t%q: &%s,\n", v, v)
			}
			b.WriteString("\t})\n}\n")
			if err := os.WriteFile(filepath.Join(dir, "zz_sim_roots.go"), []byte(b.String()), 0644); err != nil {
				fail("write roots: %v", err)
			}
		}
	}
	if len(refused) > 0 {
		fail("uncontrolled concurrency in library code, verdicts would not be replayable: %v", refused)
	}
	// site table for the runtime (kinds) and for coverage accounting (json)
	var b strings.Builder
	b.WriteString("// Code generated by /verif/tools/instrument. DO NOT EDIT.\n\npackage zzsimrt\n\nfunc init() {\n")
	fmt.Fprintf(&b, "\tNumSites = %d\n", len(sites))
	for _, s := range sites {
		fmt.Fprintf(&b, "\tSiteKind[%d] = %d\n", s.ID, s.kind)
	}
	b.WriteString("\tSitePos = []string{\"\"")
	for _, s := range sites {
		fmt.Fprintf(&b, ", %q", s.Pos)
	}
	b.WriteString("}\n")
	b.WriteString("\tWarnings = []string{")
	for _, w := range warnings {
		fmt.Fprintf(&b, "%q, ", strings.Replace(w, root+"/", "", 1))
	}
	b.WriteString("}\n}\n")
	if len(sites) >= 1<<14 {
		fail("too many sites (%d)", len(sites))
	}
	if err := os.WriteFile(filepath.Join(root, simDir, "zz_sites.go"), []byte(b.String()), 0644); err != nil {
		fail("write sites: %v", err)
	}
	js, _ := json.MarshalIndent(map[string]interface{}{"sites": sites, "roots": roots, "warnings": warnings}, "", " ")
	os.WriteFile(filepath.Join(root, "zzsim_sites.json"), js, 0644)
	fmt.Printf("instrumented: %d packages, %d sites, %d warnings\n", instrumented, len(sites), len(warnings))
}
