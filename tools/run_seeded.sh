#!/bin/bash
# tools/run_seeded.sh [tier] [id...]  - run every seeded change under /verif/seeded against the check of the
# property it breaks (in a scratch copy of /repo; /repo itself is never touched) and print one line each.
cd "$(dirname "$0")/.."
TIER="${1:-quick}"; shift
IDS="$@"; [ -z "$IDS" ] && IDS="$(ls seeded)"
for k in $IDS; do
  P="$(python3 -c "import json;print(json.load(open('seeded/$k/meta.json'))['breaks_property'])")"
  t0=$(date +%s)
  out="$(LINES_MAX=400 tools/muttest.sh seeded/$k/patch.diff "$P" "$TIER" 2>&1)"
  rc="$(echo "$out" | sed -n 's/^exit=//p')"
  cls="$(echo "$out" | sed -n 's/^  class=\([^ ]*\).*/\1/p' | sort -u | tr '\n' ',' )"
  echo "$k property=$P exit=$rc classes=$cls wall=$(( $(date +%s) - t0 ))s"
done
