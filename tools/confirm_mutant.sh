#!/bin/bash
# tools/confirm_mutant.sh <worktree> <demo-pkg-dir> <run-regex> [race]
# Confirms independently, in a fresh scratch copy of /repo: the patch applies, the existing suite passes
# with it, the demo fails with it and passes without it.
set -u
WT="$1"; PKG="$2"; RX="$3"; RACE="${4:-}"
export GOFLAGS=-mod=mod GOPROXY=off GOSUMDB=off GOTOOLCHAIN=local
D="$(mktemp -d /tmp/confirm.XXXXXX)"; trap 'rm -rf "$D"' EXIT
rsync -a --exclude .git /repo/ "$D/with/"; rsync -a --exclude .git /repo/ "$D/without/"
(cd "$D/with" && patch -p1 -s < "$WT/patch.diff") || { echo "PATCH-FAILED"; exit 2; }
echo "== suite with change"; (cd "$D/with" && go test -vet=off -count=1 ./... 2>&1 | grep -v 'no test files' | grep -v '^ok' ; echo "suite-exit=${PIPESTATUS[0]}")
for f in $(cd "$WT" && git status --porcelain | awk '/^\?\?/{print $2}' | grep '_test.go$'); do
  mkdir -p "$D/with/$(dirname $f)" "$D/without/$(dirname $f)"; cp "$WT/$f" "$D/with/$f"; cp "$WT/$f" "$D/without/$f"; echo "demo file: $f"
done
FLAGS="-vet=off -count=1"; [ -n "$RACE" ] && FLAGS="$FLAGS -race"
echo "== demo WITH change (expect FAIL)"; (cd "$D/with" && go test $FLAGS -run "$RX" ./$PKG/ 2>&1 | tail -4)
echo "== demo WITHOUT change (expect ok)"; (cd "$D/without" && go test $FLAGS -run "$RX" ./$PKG/ 2>&1 | tail -3)
