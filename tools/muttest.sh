#!/bin/bash
# tools/muttest.sh <patch.diff> <id> [tier]  - judge a scratch copy of /repo with a patch applied.
# The copy lives under /tmp and is removed afterwards; evidence and replays go to a temp dir.
set -u
PATCH="$(readlink -f "$1")"; ID="$2"; TIER="${3:-quick}"
D="$(mktemp -d /tmp/mutrepo.XXXXXX)"; trap 'rm -rf "$D"' EXIT
rsync -a --exclude .git /repo/ "$D/repo/"
(cd "$D/repo" && patch -p1 -s < "$PATCH") || { echo "PATCH-FAILED"; exit 2; }
mkdir -p "$D/ev" "$D/rp"
REPO="$D/repo" SIM_EVIDENCE_DIR="$D/ev" SIM_REPLAY_DIR="$D/rp" "$(dirname "$0")/../check" "$ID" "$TIER" 2>&1 | grep -v '^WARNING conda' | head -${LINES_MAX:-25}
echo "exit=${PIPESTATUS[0]}"
if [ -n "${KEEP_REPLAY:-}" ]; then cp "$D"/rp/* "$KEEP_REPLAY"/ 2>/dev/null; fi
