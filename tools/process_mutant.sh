#!/bin/bash
# tools/process_mutant.sh <name> <PROP> <demo-pkg> <run-regex> [race]   (worktree /tmp/wt/<name>)
cd "$(dirname "$0")/.."
N="$1"; P="$2"; PKG="$3"; RX="$4"; RACE="${5:-}"
echo "######## confirm $N"
tools/confirm_mutant.sh /tmp/wt/$N "$PKG" "$RX" $RACE 2>&1 | grep -v conda | cut -c1-220
echo "######## check $P vs $N"
LINES_MAX=14 tools/muttest.sh /tmp/wt/$N/patch.diff "$P" 2>&1 | cut -c1-330 | grep -v '^KNOWN-FINDING\|^      \|conda'
