#!/bin/bash
# tools/run_benign.sh [tier] [id...] - run the property-preserving changes under /verif/seeded-benign against the
# checks listed in their meta.json (scratch copies of /repo only). Every line must say exit=0.
cd "$(dirname "$0")/.."
TIER="${1:-quick}"; shift
IDS="$@"; [ -z "$IDS" ] && IDS="$(ls seeded-benign)"
for k in $IDS; do
  for P in $(python3 -c "import json;print(' '.join(json.load(open('seeded-benign/$k/meta.json'))['checks_run']))"); do
    t0=$(date +%s)
    out="$(LINES_MAX=400 tools/muttest.sh seeded-benign/$k/patch.diff "$P" "$TIER" 2>&1)"
    rc="$(echo "$out" | sed -n 's/^exit=//p')"
    echo "$k property=$P exit=$rc violations=$(echo "$out" | grep -c '^VIOLATION') wall=$(( $(date +%s) - t0 ))s"
  done
done
