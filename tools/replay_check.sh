#!/bin/bash
# tools/replay_check.sh <seeded-id>...  - for each seeded change: run the quick check on a patched scratch copy, keep the
# replay file of the first violation, then replay it (a) on the patched copy: must exit 1, (b) on /repo: must exit 0.
cd "$(dirname "$0")/.."
for k in "$@"; do
  P="$(python3 -c "import json;print(json.load(open('seeded/$k/meta.json'))['breaks_property'])")"
  D="$(mktemp -d /tmp/rpchk.XXXXXX)"
  rsync -a --exclude .git /repo/ "$D/repo/"
  (cd "$D/repo" && patch -p1 -s < /verif/seeded/$k/patch.diff) || { echo "$k PATCH-FAILED"; rm -rf "$D"; continue; }
  mkdir -p "$D/ev" "$D/rp"
  REPO="$D/repo" SIM_EVIDENCE_DIR="$D/ev" SIM_REPLAY_DIR="$D/rp" ./check "$P" quick > "$D/out.txt" 2>&1; rc=$?
  f="$(ls "$D"/rp/*.json 2>/dev/null | head -1)"
  if [ -z "$f" ]; then echo "$k property=$P check_exit=$rc NO-REPLAY-FILE"; rm -rf "$D"; continue; fi
  REPO="$D/repo" ./check "$P" --replay "$f" > "$D/r1.txt" 2>&1; r1=$?
  ./check "$P" --replay "$f" > "$D/r2.txt" 2>&1; r2=$?
  echo "$k property=$P check_exit=$rc replay_on_patched=$r1 replay_on_unchanged=$r2 $(grep -c race_oracle "$f" | sed 's/^/race_file=/')"
  rm -rf "$D"
done
