#!/bin/bash
# tools/precommit.sh "<message>"  - run every quick check on the unchanged tree; commit only if all exit 0
cd "$(dirname "$0")/.."
fail=0
for id in C03 C07 C13 C14 C15; do
  out="$(./check $id quick 2>&1)"; rc=$?
  echo "$out" | grep -v '^KNOWN\|conda' | cut -c1-220 | tail -1
  if [ $rc != 0 ]; then echo "CHECK $id exit=$rc"; echo "$out" | grep -v conda | head -20; fail=1; fi
done
python3-vt - <<'PY' || fail=1
import json,jsonschema,glob
jsonschema.validate(json.load(open('/verif/MANIFEST.json')),json.load(open('/root/.vp/MANIFEST.schema.json')))
for f in glob.glob('/verif/evidence/C*.json'):
    jsonschema.validate(json.load(open(f)),json.load(open('/root/.vp/EVIDENCE.schema.json')))
print("schemas ok")
PY
if [ $fail = 0 ]; then git add -A && git commit -qm "$1" && echo "committed: $1"; else echo "NOT COMMITTED"; exit 1; fi
