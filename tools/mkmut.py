#!/usr/bin/env python3
"""mkmut.py <out.diff> <file> <old> <new> [<file> <old> <new> ...]
Build a unified diff (a/ b/ paths, relative to /repo) that replaces <old> by <new> in <file>."""
import sys, difflib, collections
out = sys.argv[1]
args = sys.argv[2:]
orig, cur = {}, collections.OrderedDict()
for i in range(0, len(args), 3):
    f, old, new = args[i:i+3]
    if f not in cur:
        orig[f] = cur[f] = open('/repo/' + f).read()
    assert cur[f].count(old) >= 1, "pattern not found in " + f + ": " + old
    cur[f] = cur[f].replace(old, new, 1)
res = []
for f in cur:
    res += list(difflib.unified_diff(orig[f].splitlines(True), cur[f].splitlines(True), 'a/' + f, 'b/' + f))
open(out, 'w').write(''.join(res))
print("wrote", out)
